// validate: exercises the ASSUMED contracts of /verif/contracts/assumed against the real
// implementations (standard library and the third-party modules /repo depends on, at the versions
// in /repo/go.mod). Each group prints one line
//
//	VALIDATE group=<g> cases=<n> failures=<m> complete=<true|false> [first=<message>]
//
// "complete" says whether the group's domain is finite and was swept entirely; everything else is a
// bounded sample and is reported as such in the evidence. A failure means an assumption the proofs
// rest on is false for the real dependency.
package main

import (
	"bytes"
	"encoding/json"
	"fmt"
	"math/rand"
	"os"
	"path/filepath"
	"runtime"
	"sort"
	"strings"
	"sync"
	"text/template"
	"unicode"
	"unicode/utf8"

	"github.com/FollowTheProcess/collections/dag"
	"github.com/bmatcuk/doublestar/v4"
	"mvdan.cc/sh/v3/expand"
)

type result struct {
	cases    int64
	fails    []string
	complete bool
}

func (r *result) fail(f string, a ...interface{}) {
	if len(r.fails) < 5 {
		r.fails = append(r.fails, fmt.Sprintf(f, a...))
	} else {
		r.fails = append(r.fails, "")
	}
}

var groups = map[string]func() *result{
	"utf8":     vUTF8,
	"unicode":  vUnicode,
	"strings":  vStrings,
	"sort":     vSort,
	"fsops":    vFSOps,
	"filepath": vFilepath,
	"json":     vJSON,
	"dag":      vDag,
	"globwalk": vGlobWalk,
	"template": vTemplate,
	"environ":  vEnviron,
	"builder":  vBuilder,
}

func main() {
	names := os.Args[1:]
	if len(names) == 0 || names[0] == "all" {
		names = nil
		for n := range groups {
			names = append(names, n)
		}
		sort.Strings(names)
	}
	bad := false
	for _, n := range names {
		f, ok := groups[n]
		if !ok {
			fmt.Printf("VALIDATE group=%s cases=0 failures=1 complete=false first=unknown group\n", n)
			bad = true
			continue
		}
		r := f()
		line := fmt.Sprintf("VALIDATE group=%s cases=%d failures=%d complete=%v", n, r.cases, len(r.fails), r.complete)
		if len(r.fails) > 0 {
			line += " first=" + strings.ReplaceAll(r.fails[0], "\n", "\\n")
			bad = true
		}
		fmt.Println(line)
	}
	if bad {
		os.Exit(1)
	}
}

// ---- utf8.DecodeRuneInString: axioms utf8_empty, utf8_width, utf8_ascii, utf8_high, utf8_cont, utf8_range,
// and "the result depends on the first four bytes only" ----
func checkDecode(s string) string {
	r, w := utf8.DecodeRuneInString(s)
	if len(s) == 0 {
		if r != 65533 || w != 0 {
			return "empty string"
		}
		return ""
	}
	if w < 1 || w > 4 || w > len(s) {
		return fmt.Sprintf("width %d for %q", w, s)
	}
	if s[0] < 128 && (w != 1 || r != rune(s[0])) {
		return fmt.Sprintf("ascii %q", s)
	}
	if s[0] >= 128 && r < 128 {
		return fmt.Sprintf("high byte gives rune %d for %q", r, s)
	}
	if w >= 2 && (s[0] < 128 || s[1] < 128) || w >= 3 && s[2] < 128 || w >= 4 && s[3] < 128 {
		return fmt.Sprintf("continuation bytes of %q (w=%d)", s, w)
	}
	if r < 0 || r > 1114111 {
		return fmt.Sprintf("rune %d out of range", r)
	}
	return ""
}

func vUTF8() *result {
	res := &result{complete: true}
	var mu sync.Mutex
	var wg sync.WaitGroup
	sem := make(chan struct{}, runtime.NumCPU())
	for b0 := 0; b0 < 256; b0++ {
		wg.Add(1)
		sem <- struct{}{}
		go func(b0 int) {
			defer wg.Done()
			defer func() { <-sem }()
			var n int64
			var first string
			buf := make([]byte, 5)
			buf[0] = byte(b0)
			for b1 := 0; b1 < 256; b1++ {
				buf[1] = byte(b1)
				for b2 := 0; b2 < 256; b2++ {
					buf[2] = byte(b2)
					for b3 := 0; b3 < 256; b3++ {
						buf[3] = byte(b3)
						s := string(buf[:4])
						n++
						if m := checkDecode(s); m != "" && first == "" {
							first = m
						}
						if b3 == 0 || b3 == 0x80 {
							// depends on the first four bytes only
							buf[4] = byte(b2 ^ 0xA5)
							r1, w1 := utf8.DecodeRuneInString(s)
							r2, w2 := utf8.DecodeRuneInString(string(buf[:5]))
							if r1 != r2 || w1 != w2 {
								first = fmt.Sprintf("fifth byte changes the result for %q", s)
							}
						}
					}
					if b1 == 0 {
						n++
						if m := checkDecode(string(buf[:1])); m != "" && first == "" {
							first = m
						}
					}
				}
				n += 2
				if m := checkDecode(string(buf[:2])); m != "" && first == "" {
					first = m
				}
				for b2 := 0; b2 < 256; b2++ {
					buf[2] = byte(b2)
					if m := checkDecode(string(buf[:3])); m != "" && first == "" {
						first = m
					}
					n++
				}
			}
			mu.Lock()
			res.cases += n
			if first != "" {
				res.fail("%s", first)
			}
			mu.Unlock()
		}(b0)
	}
	wg.Wait()
	res.cases++
	if m := checkDecode(""); m != "" {
		res.fail("%s", m)
	}
	return res
}

// ---- unicode.IsSpace / IsLetter / IsPunct: axioms isSpace_ascii, isLetter_ascii, isLetter_notspace, *_err ----
func vUnicode() *result {
	res := &result{complete: true}
	for r := rune(0); r <= 0x10FFFF; r++ {
		res.cases++
		if r < 128 {
			wantS := r == 9 || r == 10 || r == 11 || r == 12 || r == 13 || r == 32
			if unicode.IsSpace(r) != wantS {
				res.fail("IsSpace(%d)", r)
			}
			wantL := (65 <= r && r <= 90) || (97 <= r && r <= 122)
			if unicode.IsLetter(r) != wantL {
				res.fail("IsLetter(%d)", r)
			}
		}
		if unicode.IsLetter(r) && (unicode.IsSpace(r) || unicode.IsPunct(r)) {
			res.fail("IsLetter(%d) together with IsSpace/IsPunct", r)
		}
	}
	if unicode.IsSpace(65533) || unicode.IsLetter(65533) || unicode.IsPunct(65533) {
		res.fail("a predicate holds of RuneError")
	}
	return res
}

// ---- strings.Split / Count / Contains / Join / TrimSpace, bytes.Join / Compare ----
func allStrings(alpha string, maxLen int, f func(string)) {
	var rec func(prefix []byte, n int)
	rec = func(prefix []byte, n int) {
		f(string(prefix))
		if n == maxLen {
			return
		}
		for i := 0; i < len(alpha); i++ {
			rec(append(prefix, alpha[i]), n+1)
		}
	}
	rec(nil, 0)
}

func vStrings() *result {
	res := &result{}
	alpha := "a \n\t*,\r"
	allStrings(alpha, 5, func(s string) {
		res.cases++
		parts := strings.Split(s, "\n")
		nl := 0
		for i := 0; i < len(s); i++ {
			if s[i] == 10 {
				nl++
			}
		}
		if len(parts) != 1+nl {
			res.fail("Split(%q) gives %d pieces for %d newlines", s, len(parts), nl)
		}
		if strings.Join(parts, "\n") != s {
			res.fail("Join(Split(%q)) differs", s)
		}
		for _, p := range parts {
			if strings.Contains(p, "\n") {
				res.fail("piece of Split(%q) contains a newline", s)
			}
		}
		// stripQuotes_quoted: removing the quotes of a quoted value leaves the text between them
		q := "\"" + strings.ReplaceAll(s, "\"", "") + "\""
		if strings.ReplaceAll(q, "\"", "") != q[1:len(q)-1] {
			res.fail("ReplaceAll of the quotes of %q", q)
		}
		if strings.Contains(s, "*") != (strings.IndexByte(s, '*') >= 0) {
			res.fail("Contains(%q, *)", s)
		}
		t := strings.TrimSpace(s)
		if !strings.Contains(s, t) || (t != "" && (unicode.IsSpace(rune(t[0])) || unicode.IsSpace(rune(t[len(t)-1])))) {
			res.fail("TrimSpace(%q) = %q", s, t)
		}
		// joinSep: fold definition of strings.Join
		xs := strings.Split(s, ",")
		acc := ""
		for i, x := range xs {
			if i == 0 {
				acc = x
			} else {
				acc = acc + ", " + x
			}
		}
		if strings.Join(xs, ", ") != acc {
			res.fail("Join(%q) differs from the fold", xs)
		}
	})
	rng := rand.New(rand.NewSource(1))
	for i := 0; i < 20000; i++ {
		res.cases++
		n := rng.Intn(5)
		var bs [][]byte
		var cat []byte
		for k := 0; k < n; k++ {
			b := make([]byte, rng.Intn(4))
			rng.Read(b)
			bs = append(bs, b)
			cat = append(cat, b...)
		}
		if !bytes.Equal(bytes.Join(bs, []byte{}), cat) {
			res.fail("bytes.Join with empty separator is not the concatenation")
		}
		a, b := make([]byte, rng.Intn(4)), make([]byte, rng.Intn(4))
		for k := range a {
			a[k] = byte(rng.Intn(3))
		}
		for k := range b {
			b[k] = byte(rng.Intn(3))
		}
		want := 0
		for k := 0; ; k++ {
			if k == len(a) && k == len(b) {
				break
			}
			if k == len(a) {
				want = -1
				break
			}
			if k == len(b) {
				want = 1
				break
			}
			if a[k] != b[k] {
				if a[k] < b[k] {
					want = -1
				} else {
					want = 1
				}
				break
			}
		}
		if bytes.Compare(a, b) != want {
			res.fail("bytes.Compare(%v, %v)", a, b)
		}
	}
	return res
}

// ---- sort.Stable over a strict weak order whose equivalence is equality; sort.Strings ----
type byteSlices [][]byte

func (s byteSlices) Len() int           { return len(s) }
func (s byteSlices) Less(i, j int) bool { return bytes.Compare(s[i], s[j]) == -1 }
func (s byteSlices) Swap(i, j int)      { s[i], s[j] = s[j], s[i] }

func vSort() *result {
	res := &result{}
	rng := rand.New(rand.NewSource(2))
	for i := 0; i < 20000; i++ {
		res.cases++
		n := rng.Intn(8)
		var xs [][]byte
		var ss []string
		for k := 0; k < n; k++ {
			b := make([]byte, rng.Intn(3))
			for j := range b {
				b[j] = byte(97 + rng.Intn(3))
			}
			xs = append(xs, b)
			ss = append(ss, string(b))
		}
		count := map[string]int{}
		for _, s := range ss {
			count[s]++
		}
		sort.Stable(byteSlices(xs))
		for k := 1; k < len(xs); k++ {
			if bytes.Compare(xs[k-1], xs[k]) > 0 {
				res.fail("sort.Stable result not ascending")
			}
		}
		for _, x := range xs {
			count[string(x)]--
		}
		for _, c := range count {
			if c != 0 {
				res.fail("sort.Stable result is not a permutation")
			}
		}
		in := append([]string{}, ss...)
		sort.Strings(ss)
		for k := 1; k < len(ss); k++ {
			if ss[k-1] > ss[k] {
				res.fail("sort.Strings result not ascending")
			}
		}
		c2 := map[string]int{}
		for _, s := range in {
			c2[s]++
		}
		for _, s := range ss {
			c2[s]--
		}
		for _, c := range c2 {
			if c != 0 {
				res.fail("sort.Strings result is not a permutation")
			}
		}
	}
	return res
}

// ---- os file primitives: the effects the assumed contracts describe ----
func vFSOps() *result {
	res := &result{}
	base, err := os.MkdirTemp("", "validate-")
	if err != nil {
		res.fail("no temp dir: %v", err)
		return res
	}
	defer os.RemoveAll(base)
	check := func(ok bool, f string, a ...interface{}) {
		res.cases++
		if !ok {
			res.fail(f, a...)
		}
	}
	p := filepath.Join(base, "a.txt")
	other := filepath.Join(base, "other.txt")
	check(os.WriteFile(other, []byte("other"), 0o644) == nil, "WriteFile other")
	check(os.WriteFile(p, []byte("hello"), 0o644) == nil, "WriteFile")
	b, err := os.ReadFile(p)
	check(err == nil && string(b) == "hello", "ReadFile after WriteFile")
	check(os.WriteFile(p, []byte("x"), 0o644) == nil, "WriteFile overwrite")
	b, _ = os.ReadFile(p)
	check(string(b) == "x", "WriteFile truncates before writing")
	b, _ = os.ReadFile(other)
	check(string(b) == "other", "WriteFile leaves other files alone")
	_, err = os.Stat(p)
	check(err == nil, "Stat of an existing file")
	_, err = os.Stat(filepath.Join(base, "missing"))
	check(err != nil, "Stat of a missing file")
	f, err := os.Open(filepath.Join(base, "missing"))
	check(err != nil && f == nil, "Open of a missing file returns a nil file")
	func() {
		defer func() {
			if recover() != nil {
				check(false, "(*os.File)(nil).Stat() panics")
			}
		}()
		var nf *os.File
		info, err := nf.Stat()
		check(info == nil && err != nil, "(*os.File)(nil).Stat() returns (nil, error)")
	}()
	f, err = os.Open(base)
	if err == nil {
		info, err := f.Stat()
		check(err == nil && info.IsDir(), "Stat of an open directory says IsDir")
		f.Close()
	}
	// O_APPEND|O_CREATE|O_WRONLY == 1089 on linux, appends and never truncates
	check(os.O_APPEND|os.O_CREATE|os.O_WRONLY == 1089, "O_APPEND|O_CREATE|O_WRONLY is %d, the contract says 1089", os.O_APPEND|os.O_CREATE|os.O_WRONLY)
	af, err := os.OpenFile(p, os.O_APPEND|os.O_CREATE|os.O_WRONLY, 0o644)
	if err == nil {
		af.WriteString("yz")
		af.Close()
	}
	b, _ = os.ReadFile(p)
	check(string(b) == "xyz", "OpenFile(O_APPEND).WriteString appends: %q", b)
	nf := filepath.Join(base, "new.txt")
	af, err = os.OpenFile(nf, os.O_APPEND|os.O_CREATE|os.O_WRONLY, 0o644)
	if err == nil {
		af.WriteString("n")
		af.Close()
	}
	b, _ = os.ReadFile(nf)
	check(string(b) == "n", "OpenFile(O_CREATE) creates")
	// MkdirAll creates the path and its ancestors only; existing files stay
	d := filepath.Join(base, "d1", "d2")
	check(os.MkdirAll(d, 0o755) == nil, "MkdirAll")
	st, err := os.Stat(d)
	check(err == nil && st.IsDir(), "MkdirAll created the directory")
	b, _ = os.ReadFile(p)
	check(string(b) == "xyz", "MkdirAll leaves files alone")
	// ReadDir: sorted by name, regular file named spokfile is listed as such
	os.WriteFile(filepath.Join(base, "spokfile"), nil, 0o644)
	os.Mkdir(filepath.Join(base, "zdir"), 0o755)
	ents, err := os.ReadDir(base)
	check(err == nil, "ReadDir")
	found := false
	for i, e := range ents {
		if i > 0 && ents[i-1].Name() >= e.Name() {
			check(false, "ReadDir not sorted by name")
		}
		if e.Name() == "spokfile" && !e.IsDir() {
			found = true
		}
	}
	check(found, "ReadDir lists the regular file spokfile")
	// RemoveAll removes the subtree and nothing else; missing path is not an error
	os.WriteFile(filepath.Join(d, "deep.txt"), []byte("deep"), 0o644)
	check(os.RemoveAll(filepath.Join(base, "d1")) == nil, "RemoveAll")
	_, err = os.Stat(filepath.Join(base, "d1"))
	check(err != nil, "RemoveAll removed the directory")
	b, _ = os.ReadFile(p)
	check(string(b) == "xyz", "RemoveAll leaves siblings alone")
	check(os.RemoveAll(filepath.Join(base, "never-there")) == nil, "RemoveAll of a missing path")
	return res
}

// ---- filepath: the path algebra of paths.spec on clean absolute directories and simple names ----
func vFilepath() *result {
	res := &result{}
	rng := rand.New(rand.NewSource(3))
	segs := []string{"a", "b", "home", "proj", ".spok", "x.y"}
	simple := []string{".spok", "cache.json", ".gitignore", "CACHEDIR.TAG", "spokfile", ".env"}
	mk := func() string {
		n := rng.Intn(4)
		p := "/"
		for i := 0; i < n; i++ {
			p = filepath.Join(p, segs[rng.Intn(len(segs))])
		}
		return p
	}
	depth := func(p string) int {
		if p == "/" {
			return 0
		}
		return strings.Count(p, "/")
	}
	ancOrSelf := func(d, p string) bool {
		rel, err := filepath.Rel(d, p)
		return err == nil && rel != ".." && !strings.HasPrefix(rel, "../")
	}
	refAnc := func(d, p string) bool {
		return d == p || d == "/" || strings.HasPrefix(p, d+"/")
	}
	for i := 0; i < 50000; i++ {
		res.cases++
		d, p := mk(), mk()
		if ancOrSelf(d, p) != refAnc(d, p) {
			res.fail("Rel-based ancOrSelf(%q, %q) differs from the prefix definition", d, p)
		}
		if (filepath.Dir(p) == p) != (depth(p) == 0) {
			res.fail("dir_root for %q", p)
		}
		if depth(p) > 0 && depth(filepath.Dir(p)) != depth(p)-1 {
			res.fail("dir_depth for %q", p)
		}
		if !ancOrSelf(filepath.Dir(p), p) {
			res.fail("anc_parent for %q", p)
		}
		if ancOrSelf(d, p) && d != p && !(depth(p) > 0 && ancOrSelf(d, filepath.Dir(p))) {
			res.fail("anc_step for %q %q", d, p)
		}
		if ancOrSelf(d, p) && !(depth(d) <= depth(p) && (depth(d) != depth(p) || d == p)) {
			res.fail("anc_depth for %q %q", d, p)
		}
		q := mk()
		if ancOrSelf(d, q) && ancOrSelf(p, q) && !(ancOrSelf(d, p) || ancOrSelf(p, d)) {
			res.fail("anc_chain for %q %q %q", d, p, q)
		}
		x, y := simple[rng.Intn(len(simple))], simple[rng.Intn(len(simple))]
		j := filepath.Join(d, x)
		if !(ancOrSelf(d, j) && filepath.Dir(j) == d && j != d && depth(j) == depth(d)+1) {
			res.fail("join_simple for %q %q", d, x)
		}
		if filepath.Join(d, filepath.Join(x, y)) != filepath.Join(filepath.Join(d, x), y) {
			res.fail("join_assoc for %q %q %q", d, x, y)
		}
		if filepath.Join(d, x) == filepath.Join(d, y) && x != y {
			res.fail("join_inj for %q %q %q", d, x, y)
		}
		// the same laws for the unclean / relative directories the test-suite uses ("" and ".")
		for _, u := range []string{"", ".", "rel", "rel/", "a//b"} {
			ju := filepath.Join(u, x)
			if !ancOrSelf(u, ju) || ju == u {
				res.fail("join_simple (ancestor / distinct) for unclean dir %q and %q", u, x)
			}
			if filepath.Join(u, filepath.Join(x, y)) != filepath.Join(filepath.Join(u, x), y) {
				res.fail("join_assoc for unclean dir %q", u)
			}
			if filepath.Dir(ju) != filepath.Clean(u) {
				res.fail("Dir(Join(%q, %q)) is not Clean(dir)", u, x)
			}
		}
		a, err := filepath.Abs(p)
		if err != nil || a != p {
			res.fail("Abs of the clean absolute path %q", p)
		}
	}
	return res
}

// ---- encoding/json on map[string]string: round trip; no proper prefix of a marshalled object unmarshals ----
func vJSON() *result {
	res := &result{}
	rng := rand.New(rand.NewSource(4))
	keys := []string{"a", "build", "t\"q", "k\\", "ünï", "", "x y"}
	for i := 0; i < 3000; i++ {
		m := map[string]string{}
		for k := 0; k < rng.Intn(4); k++ {
			v := make([]byte, rng.Intn(6))
			for j := range v {
				v[j] = "0123456789abcdef\"\\{}:,"[rng.Intn(22)]
			}
			m[keys[rng.Intn(len(keys))]] = string(v)
		}
		b, err := json.Marshal(m)
		res.cases++
		if err != nil {
			res.fail("Marshal fails on %v", m)
			continue
		}
		back := map[string]string{}
		if err := json.Unmarshal(b, &back); err != nil || len(back) != len(m) {
			res.fail("round trip of %v", m)
		}
		for k, v := range m {
			if back[k] != v {
				res.fail("round trip value of %q", k)
			}
		}
		for cut := 0; cut < len(b); cut++ {
			res.cases++
			var pm map[string]string
			if json.Unmarshal(b[:cut], &pm) == nil {
				res.fail("the proper prefix %q of %q unmarshals without error", b[:cut], b)
			}
		}
	}
	return res
}

// ---- dag (collections): New / AddVertex / AddEdge / ContainsVertex / Order / Sort, exhaustive <= 4 vertices ----
func vDag() *result {
	res := &result{complete: true}
	names := []string{"a", "b", "c", "d"}
	for n := 0; n <= 4; n++ {
		pairs := [][2]int{}
		for i := 0; i < n; i++ {
			for j := 0; j < n; j++ {
				if i != j {
					pairs = append(pairs, [2]int{i, j})
				}
			}
		}
		for mask := 0; mask < 1<<len(pairs); mask++ {
			for rep := 0; rep < 8; rep++ {
				res.cases++
				g := dag.New[string, string]()
				if g.Order() != 0 {
					res.fail("Order of a new graph")
				}
				for i := 0; i < n; i++ {
					if g.ContainsVertex(names[i]) {
						res.fail("ContainsVertex before AddVertex")
					}
					if err := g.AddVertex(names[i], "item-"+names[i]); err != nil {
						res.fail("AddVertex of a new id fails")
					}
					if err := g.AddVertex(names[i], "dup"); err == nil {
						res.fail("AddVertex of an existing id succeeds")
					}
					if !g.ContainsVertex(names[i]) || g.Order() != i+1 {
						res.fail("ContainsVertex / Order after AddVertex")
					}
				}
				if n > 0 {
					if g.AddEdge(names[0], "zz") == nil || g.AddEdge("zz", names[0]) == nil {
						res.fail("AddEdge with a missing endpoint succeeds")
					}
				}
				edges := map[[2]string]bool{}
				for k, pr := range pairs {
					if mask&(1<<k) != 0 {
						if err := g.AddEdge(names[pr[0]], names[pr[1]]); err != nil {
							res.fail("AddEdge between existing vertices fails")
						}
						edges[[2]string{names[pr[0]], names[pr[1]]}] = true
					}
				}
				order, err := g.Sort()
				if err != nil {
					continue
				}
				if len(order) > n {
					res.fail("Sort returns more items than vertices")
				}
				pos := map[string]int{}
				for i, it := range order {
					id := strings.TrimPrefix(it, "item-")
					if _, dup := pos[id]; dup || !strings.HasPrefix(it, "item-") {
						res.fail("Sort result has a duplicate or a foreign item")
					}
					pos[id] = i
				}
				for e := range edges {
					ci, inC := pos[e[1]]
					pi, inP := pos[e[0]]
					if inC && !(inP && pi < ci) {
						res.fail("Sort: %s is in the result but its parent %s is not before it (n=%d mask=%d)", e[1], e[0], n, mask)
					}
				}
			}
		}
	}
	return res
}

// ---- doublestar.GlobWalk with a callback that only returns nil: exactly the matching paths, each once ----
func matchSeg(pat, name string) bool {
	if pat == "" {
		return name == ""
	}
	if pat[0] == '*' {
		for i := 0; i <= len(name); i++ {
			if matchSeg(pat[1:], name[i:]) {
				return true
			}
		}
		return false
	}
	return name != "" && pat[0] == name[0] && matchSeg(pat[1:], name[1:])
}

func matchSegs(pat, path []string) bool {
	if len(pat) == 0 {
		return len(path) == 0
	}
	if pat[0] == "**" {
		for i := 0; i <= len(path); i++ {
			if matchSegs(pat[1:], path[i:]) {
				return true
			}
		}
		return false
	}
	return len(path) > 0 && matchSeg(pat[0], path[0]) && matchSegs(pat[1:], path[1:])
}

func vGlobWalk() *result {
	res := &result{}
	pool := []string{"a.go", "b.txt", ".hid.go", "src/c.go", "src/d.txt", "src/.e.go", "src/deep/f.go", ".git/g.go", "docs/h.md", "src/deep/.i/j.go"}
	pats := []string{"*", "*.go", "**", "**/*", "**/*.go", "src/*", "src/*.go", "src/**", "src/**/*.go", "*/*.go", "**/deep/*", "*.txt", "docs/*.md", "**/*.md", "*/*", "**/f.go", "src/**/f.go", "nothing/*", "**/.e.go", "*/**/*.go"}
	base, err := os.MkdirTemp("", "validate-")
	if err != nil {
		res.fail("no temp dir")
		return res
	}
	defer os.RemoveAll(base)
	rng := rand.New(rand.NewSource(5))
	for trial := 0; trial < 120; trial++ {
		root := filepath.Join(base, fmt.Sprint(trial))
		os.MkdirAll(root, 0o755)
		present := map[string]bool{}
		for _, p := range pool {
			if rng.Intn(2) == 0 || trial == 0 {
				os.MkdirAll(filepath.Join(root, filepath.Dir(p)), 0o755)
				os.WriteFile(filepath.Join(root, p), nil, 0o644)
				present[p] = true
			}
		}
		// every path (file or directory) in the tree
		var all []string
		filepath.Walk(root, func(p string, info os.FileInfo, err error) error {
			rel, _ := filepath.Rel(root, p)
			if rel != "." {
				all = append(all, rel)
			}
			return nil
		})
		for _, pat := range pats {
			res.cases++
			seen := map[string]int{}
			err := doublestar.GlobWalk(os.DirFS(root), pat, func(p string, d os.DirEntry) error {
				seen[p]++
				return nil
			})
			if err != nil {
				res.fail("GlobWalk(%q) fails: %v", pat, err)
				continue
			}
			for _, p := range all {
				want := matchSegs(strings.Split(pat, "/"), strings.Split(p, "/"))
				if want && seen[p] != 1 {
					res.fail("GlobWalk(%q) called the function %d times for the matching path %q", pat, seen[p], p)
				}
				if !want && seen[p] != 0 {
					res.fail("GlobWalk(%q) called the function for the non-matching path %q", pat, p)
				}
			}
			for p := range seen {
				ok := false
				for _, q := range all {
					if p == q {
						ok = true
					}
				}
				if !ok && p != "." {
					res.fail("GlobWalk(%q) reported %q which is not in the tree", pat, p)
				}
			}
		}
		os.RemoveAll(root)
	}
	return res
}

// ---- text/template over a string map: {{.NAME}} is replaced by the value, everything else is copied ----
func vTemplate() *result {
	res := &result{}
	rng := rand.New(rand.NewSource(6))
	frags := []string{"go test ./... ", "echo ", "&& ", "> out.txt ", "'quoted' ", "\"dq\" ", "<tag> ", "a+b ", "$HOME ", "\\n ", "}} ", "{ ", "% "}
	names := []string{"VERSION", "BIN", "X"}
	vals := []string{"1.0", "a && b > c", "<v>", "it's", "\"q\"", "", "x+y", "{{.X}}"}
	for i := 0; i < 20000; i++ {
		res.cases++
		vars := map[string]string{}
		for _, n := range names {
			vars[n] = vals[rng.Intn(len(vals))]
		}
		src, want := "", ""
		for k := 0; k < rng.Intn(6); k++ {
			if rng.Intn(2) == 0 {
				f := frags[rng.Intn(len(frags))]
				src += f
				want += f
			} else {
				n := names[rng.Intn(len(names))]
				src += "{{." + n + "}}"
				want += vars[n]
			}
		}
		t, err := template.New("tmp").Parse(src)
		if err != nil {
			res.fail("Parse(%q): %v", src, err)
			continue
		}
		out := &bytes.Buffer{}
		if err := t.Execute(out, vars); err != nil {
			res.fail("Execute(%q): %v", src, err)
			continue
		}
		if out.String() != want {
			res.fail("template %q over %v gives %q, want %q", src, vars, out.String(), want)
		}
	}
	return res
}

// ---- expand.ListEnviron: on duplicate names the last pair wins ----
func vEnviron() *result {
	res := &result{}
	cases := [][]string{
		{"A=1", "A=2"},
		{"A=1", "B=x", "A=3"},
		{"PATH=/bin", "HOME=/h", "PATH=/other"},
		{"A=", "A=set"},
		{"A=set", "A="},
	}
	for _, c := range cases {
		res.cases++
		env := expand.ListEnviron(c...)
		last := map[string]string{}
		for _, kv := range c {
			i := strings.Index(kv, "=")
			last[kv[:i]] = kv[i+1:]
		}
		for k, v := range last {
			got := env.Get(k)
			if got.String() != v {
				res.fail("ListEnviron(%v).Get(%s) = %q, the last pair says %q", c, k, got.String(), v)
			}
		}
	}
	return res
}

// ---- strings.Builder / bytes.Buffer accumulate what is written ----
func vBuilder() *result {
	res := &result{}
	rng := rand.New(rand.NewSource(7))
	for i := 0; i < 5000; i++ {
		res.cases++
		var sb strings.Builder
		bb := &bytes.Buffer{}
		want := ""
		if sb.String() != "" || bb.String() != "" {
			res.fail("zero Builder/Buffer is not empty")
		}
		sb.Grow(rng.Intn(64))
		for k := 0; k < rng.Intn(6); k++ {
			s := strings.Repeat(string(rune(97+rng.Intn(26))), rng.Intn(4))
			n, err := sb.WriteString(s)
			if n != len(s) || err != nil {
				res.fail("Builder.WriteString result")
			}
			bb.WriteString(s)
			want += s
		}
		if sb.String() != want || bb.String() != want {
			res.fail("accumulated text differs")
		}
	}
	return res
}
