module validate

go 1.23

require (
	github.com/FollowTheProcess/collections v0.10.0
	github.com/FollowTheProcess/spok v0.0.0
	github.com/bmatcuk/doublestar/v4 v4.7.1
	mvdan.cc/sh/v3 v3.10.0
)

replace github.com/FollowTheProcess/spok => /repo
