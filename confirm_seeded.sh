#!/bin/bash
# confirm_seeded.sh <PROP> <k> : independently confirm a sub-agent's seeded change in the scratch worktree
# /tmp/wt-<PROP> and store it under /verif/seeded/<PROP>-m<k>/ with what was run.
export GOFLAGS=-mod=mod GOPROXY=off GOSUMDB=off GOTOOLCHAIN=local
P=$1; k=$2; src=/tmp/seeded-$P/m$k; wt=/tmp/wt-$P; out=/verif/seeded/$P-m$k
[ -d "$wt" ] || { echo "no worktree $wt"; exit 2; }
cd $wt && git checkout -q -- . && git clean -fdq
place=$(grep -m1 -o '<repo>/[^ ]*_test.go' $src/demo_test.go | sed 's|<repo>/||')
if [ -z "$place" ]; then
  d=$(grep -m1 -o '<repo>/[a-z/]*/' $src/demo_test.go | sed 's|<repo>/||')
  [ -n "$d" ] && place="${d}seeded_${P}_m${k}_demo_test.go"
fi
[ -n "$place" ] || { echo "cannot find placement in demo header"; exit 2; }
log=""
run() { local r; "$@" >/tmp/confirm.out 2>&1; r=$?; log="$log\n\$ $* -> exit $r"; return $r; }
git apply $src/patch.diff || { echo "patch does not apply"; exit 2; }
run go build ./... ; b=$?
run go test -vet=off -count=1 -timeout 300s ./... ; t=$?
cp $src/demo_test.go $wt/$place
run go test -vet=off -count=1 -timeout 120s ./$(dirname $place)/ ; dm=$?
git checkout -q -- . 
run go test -vet=off -count=1 -timeout 120s ./$(dirname $place)/ ; do_=$?
git clean -fdq
echo "build=$b suite=$t demo_with_mutation=$dm demo_on_original=$do_"
if [ $b -eq 0 ] && [ $t -eq 0 ] && [ $dm -ne 0 ] && [ $do_ -eq 0 ]; then
  mkdir -p $out && cp $src/patch.diff $src/demo_test.go $out/
  python3 - "$src/meta.json" "$out/meta.json" "$place" <<PY
import json,sys
m=json.load(open(sys.argv[1]))
m["demo_placement"]=sys.argv[3]
m["confirmed_by_me"]={"where":"scratch worktree $wt","build_with_change":"ok","suite_with_change":"pass","demo_with_change":"FAIL (as required)","demo_on_original":"pass"}
json.dump(m,open(sys.argv[2],"w"),indent=1)
PY
  echo "kept: $out"
else
  echo "NOT kept"
fi
