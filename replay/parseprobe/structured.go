package main

// Structured generators for the fidelity properties (C06, C07, C11, C15): the BOUNDED stand-ins
// for the composition lexer ∘ parser ∘ printer, which is not brought under contracts.
//
//   - programs(): abstract spokfiles (a small enumerated family) rendered in every combination of
//     the layout choices the syntax admits (C06), each with the structure the parser must return;
//   - lineSequences(): every sequence of up to maxLines lines drawn from a pool of comment / blank /
//     assignment / task lines (comments in every position the syntax allows, C15), also fed to the
//     C07 and C11 oracles.

import (
	"fmt"
	"strconv"
	"strings"

	"github.com/FollowTheProcess/spok/ast"
)

type absArg struct {
	isString bool
	text     string
}

type absStmt struct {
	kind     string // "assign", "comment", "task"
	name     string
	value    absArg   // assign: string or ident
	fn       string   // assign: builtin call name ("" if none)
	fnArgs   []absArg // assign: builtin call arguments
	comment  string   // comment text / task docstring ("" = none)
	deps     []absArg
	outs     []absArg
	commands []string
}

type layout struct {
	indent    string // indentation of body lines
	nl        string // line end
	declare   string // text of := with surrounding blanks
	comma     string // separator between arguments
	trailing  bool   // trailing comma in non-empty lists
	preParen  string // between task name and (
	preBrace  string // between ) / outputs and {
	parenOne  bool   // a single output written in parentheses
	oneLine   bool   // one-line body (only when there is at most one command)
	blank     bool   // blank line between statements
	arrow     string // text of -> with surrounding blanks
	hashSpace string // between # and comment text
}

func layouts() []layout {
	var out []layout
	for _, indent := range []string{"    ", "\t", " "} {
		for _, nl := range []string{"\n", "\r\n"} {
			for _, declare := range []string{" := ", ":=", "  :=\t"} {
				for _, comma := range []string{", ", ",", " , "} {
					for _, trailing := range []bool{false, true} {
						for _, pre := range []string{"", " "} {
							for _, preBrace := range []string{" ", "", "\t"} {
								for _, parenOne := range []bool{false, true} {
									for _, oneLine := range []bool{false, true} {
										out = append(out, layout{indent: indent, nl: nl, declare: declare, comma: comma, trailing: trailing, preParen: pre, preBrace: preBrace, parenOne: parenOne, oneLine: oneLine, blank: trailing != oneLine, arrow: map[bool]string{false: " -> ", true: "->"}[parenOne != trailing], hashSpace: map[bool]string{false: " ", true: ""}[oneLine]})
									}
								}
							}
						}
					}
				}
			}
		}
	}
	return out
}

func renderArg(a absArg) string {
	if a.isString {
		return `"` + a.text + `"`
	}
	return a.text
}

func renderList(args []absArg, l layout) string {
	var parts []string
	for _, a := range args {
		parts = append(parts, renderArg(a))
	}
	s := strings.Join(parts, l.comma)
	if l.trailing && len(args) > 0 {
		s += strings.TrimRight(l.comma, " ")
		if l.comma == " , " {
			s += " " // a blank (or, with parenOne, a line end) between the trailing comma and the closing parenthesis
			if l.parenOne {
				s += l.nl + l.indent
			}
		}
	}
	return s
}

func render(prog []absStmt, l layout) string {
	var b strings.Builder
	for i, s := range prog {
		if i > 0 && l.blank {
			b.WriteString(l.nl)
		}
		switch s.kind {
		case "comment":
			b.WriteString("#" + l.hashSpace + s.comment + l.nl)
		case "assign":
			b.WriteString(s.name + l.declare)
			if s.fn != "" {
				b.WriteString(s.fn + "(" + renderList(s.fnArgs, l) + ")")
			} else {
				b.WriteString(renderArg(s.value))
			}
			b.WriteString(l.nl)
		case "task":
			if s.comment != "" {
				b.WriteString("#" + l.hashSpace + s.comment + l.nl)
			}
			b.WriteString("task " + s.name + l.preParen + "(" + renderList(s.deps, l) + ")")
			if len(s.outs) == 1 && !l.parenOne {
				b.WriteString(l.arrow + renderArg(s.outs[0]))
			} else if len(s.outs) > 0 {
				b.WriteString(l.arrow + "(" + renderList(s.outs, l) + ")")
			}
			b.WriteString(l.preBrace + "{")
			if l.oneLine && len(s.commands) <= 1 {
				if len(s.commands) == 1 {
					b.WriteString(" " + s.commands[0] + " ")
				}
				b.WriteString("}" + l.nl)
			} else {
				b.WriteString(l.nl)
				for _, c := range s.commands {
					b.WriteString(l.indent + c + l.nl)
				}
				b.WriteString("}" + l.nl)
			}
		}
	}
	return b.String()
}

// describe: the structure in the same textual form structureOf gives for a parsed tree.
func describe(prog []absStmt) []string {
	var out []string
	arg := func(a absArg) string {
		if a.isString {
			return "NodeString:" + a.text
		}
		return "NodeIdent:" + a.text
	}
	for _, s := range prog {
		switch s.kind {
		case "comment":
			out = append(out, "comment "+strconv.Quote(strings.TrimSpace(s.comment)))
		case "assign":
			if s.fn != "" {
				d := "assign " + s.name + " = call " + s.fn + "("
				for _, a := range s.fnArgs {
					d += arg(a) + ";"
				}
				out = append(out, d+")")
			} else {
				out = append(out, "assign "+s.name+" = "+arg(s.value))
			}
		case "task":
			d := "task " + s.name + " doc=" + strconv.Quote(strings.TrimSpace(s.comment)) + " deps["
			for _, a := range s.deps {
				d += arg(a) + ";"
			}
			d += "] outs["
			for _, a := range s.outs {
				d += arg(a) + ";"
			}
			d += "] cmds["
			for _, c := range s.commands {
				d += strconv.Quote(c) + ";"
			}
			out = append(out, d+"]")
		}
	}
	return out
}

func structureOf(t ast.Tree) []string {
	var out []string
	arg := func(n ast.Node) string { return n.Type().String() + ":" + n.Literal() }
	for _, n := range t.Nodes {
		switch x := n.(type) {
		case ast.Comment:
			out = append(out, "comment "+strconv.Quote(strings.TrimSpace(x.Text)))
		case ast.Assign:
			if f, ok := x.Value.(ast.Function); ok {
				d := "assign " + x.Name.Name + " = call " + f.Name.Name + "("
				for _, a := range f.Arguments {
					d += arg(a) + ";"
				}
				out = append(out, d+")")
			} else {
				out = append(out, "assign "+x.Name.Name+" = "+arg(x.Value))
			}
		case ast.Task:
			d := "task " + x.Name.Name + " doc=" + strconv.Quote(strings.TrimSpace(x.Docstring.Text)) + " deps["
			for _, a := range x.Dependencies {
				d += arg(a) + ";"
			}
			d += "] outs["
			for _, a := range x.Outputs {
				d += arg(a) + ";"
			}
			d += "] cmds["
			for _, c := range x.Commands {
				d += strconv.Quote(c.Command) + ";"
			}
			out = append(out, d+"]")
		}
	}
	return out
}

func str(s string) absArg   { return absArg{isString: true, text: s} }
func ident(s string) absArg { return absArg{text: s} }

// programs: the enumerated family of abstract spokfiles (0-3 statements).
func programs() [][]absStmt {
	assigns := []absStmt{
		{kind: "assign", name: "VERSION", value: str("0.3.0")},
		{kind: "assign", name: "émoji_ünï", value: str("héllo wörld /path/to.go *.x C:\\dir\\n \\.go$ a=b")},
		// (an assignment whose value is a bare identifier is outside C06's statement: "variables with
		// string or builtin-call values"; `B := A` followed by another assignment does not parse)
		{kind: "assign", name: "ROOT", fn: "join", fnArgs: []absArg{str("a"), ident("B"), str("c d")}},
		{kind: "assign", name: "SHA", fn: "exec", fnArgs: []absArg{str("git rev-parse HEAD")}},
		{kind: "assign", name: "E", fn: "join"},
	}
	comments := []absStmt{{kind: "comment", comment: "A comment: with, punctuation (and) \"quotes\" {braces} ## \\n"}, {kind: "comment", comment: "ünï"}, {kind: "comment", comment: ""}}
	tasks := []absStmt{
		{kind: "task", name: "empty"},
		{kind: "task", name: "test", comment: "Run the tests", deps: []absArg{str("**/*.go")}, commands: []string{"go test ./..."}},
		{kind: "task", name: "build_ü", deps: []absArg{str("**/*.go"), ident("fmt"), str("go.mod")}, outs: []absArg{str("./bin/main")}, commands: []string{"go build -ldflags=\"-X main.version={{.VERSION}}\" ./...", "echo done > out.txt"}},
		{kind: "task", name: "many", comment: "Two outputs", deps: []absArg{ident("test")}, outs: []absArg{ident("BIN"), str("docs/*.html")}, commands: []string{"a b c", "x --flag=1 | y && z"}},
		{kind: "task", name: "named", outs: []absArg{ident("BIN")}, commands: []string{"echo {{.A}} {{.B}}"}},
		{kind: "task", name: "group", deps: []absArg{ident("a"), ident("b")}},
	}
	var out [][]absStmt
	out = append(out, nil)
	all := append(append(append([]absStmt{}, assigns...), comments...), tasks...)
	for _, s := range all {
		out = append(out, []absStmt{s})
	}
	for _, a := range all {
		for _, b := range all {
			if a.kind == "comment" && b.kind == "task" {
				continue // a comment directly before a task is its docstring: covered by the task's own comment field
			}
			out = append(out, []absStmt{a, b})
		}
	}
	out = append(out, []absStmt{comments[0], assigns[0], tasks[1], tasks[2], assigns[3], tasks[3]})
	return out
}

// oracleC06Program: parse the rendering, compare with the generating structure.
func oracleC06Program(prog []absStmt, l layout) (string, string) {
	text := render(prog, l)
	r := parseWith(text, 2e9)
	if r.timedOut {
		return text, "parse timed out"
	}
	if r.panicked != nil {
		return text, fmt.Sprintf("parse panicked: %v", r.panicked)
	}
	if r.err != nil {
		return text, "an admissible layout of a well-formed spokfile does not parse: " + firstLine(r.err.Error())
	}
	want, got := describe(prog), structureOf(r.tree)
	if strings.Join(want, "\n") != strings.Join(got, "\n") {
		return text, fmt.Sprintf("parsed structure differs from the written one: want %q got %q", want, got)
	}
	return text, ""
}

func firstLine(s string) string {
	if i := strings.Index(s, "\n"); i >= 0 {
		return s[:i]
	}
	return s
}

// oracleC06 (for replay of a stored failing input): the text must parse and printing+reparsing must
// keep the structure; the written structure itself is not available for a raw text.
func oracleC06(input string) string {
	r := parseWith(input, 2e9)
	if r.timedOut || r.panicked != nil || r.err != nil {
		if r.err != nil {
			return "does not parse: " + firstLine(r.err.Error())
		}
		return "parse timed out or panicked"
	}
	for _, n := range r.tree.Nodes {
		if t, ok := n.(ast.Task); ok {
			for _, c := range t.Commands {
				if strings.TrimSpace(c.Command) != c.Command {
					return fmt.Sprintf("command text %q carries layout (line end / blanks) that is not part of the command", c.Command)
				}
			}
		}
	}
	return ""
}

// expectedComments: what the comment/docstring structure of a line sequence is, read off the source
// lines themselves (independent of the lexer): a '#' line is a comment with the text after the '#';
// a non-empty comment directly above a task line (blank lines between do not count) is its docstring.
func expectedComments(lines []string) []string {
	var out []string
	pending := "" // a comment that may turn out to be a docstring
	havePending := false
	flush := func() {
		if havePending && strings.TrimSpace(pending) != "" {
			out = append(out, "comment "+strings.TrimSpace(pending))
		}
		havePending = false
	}
	for _, l := range lines {
		switch {
		case strings.HasPrefix(l, "#"):
			flush()
			pending, havePending = l[1:], true
		case strings.HasPrefix(l, "task "):
			name := l[len("task "):strings.Index(l, "(")]
			doc := ""
			if havePending && pending != "" {
				doc = strings.TrimSpace(pending)
				havePending = false
			}
			flush()
			out = append(out, "task "+name+" doc="+strconv.Quote(doc))
		case l == "":
			// blank lines separate nothing
		default:
			flush()
			out = append(out, "stmt")
		}
	}
	flush()
	return out
}

// oracleC15Lines: the comments and docstrings read off the source lines survive parsing and a
// format / parse round trip.
func oracleC15Lines(lines []string, final string) string {
	src := strings.Join(lines, "\n") + final
	r := parseWith(src, 2e9)
	if r.timedOut || r.panicked != nil || r.err != nil {
		return ""
	}
	want := expectedComments(lines)
	if got := comments(r.tree); strings.Join(got, "|") != strings.Join(want, "|") {
		return fmt.Sprintf("comments/docstrings parsed differ from the source lines: source %q parsed %q", want, got)
	}
	r2 := parseWith(r.tree.String(), 2e9)
	if r2.timedOut || r2.panicked != nil || r2.err != nil {
		return ""
	}
	if got := comments(r2.tree); strings.Join(got, "|") != strings.Join(want, "|") {
		return fmt.Sprintf("comments/docstrings after formatting differ from the source lines: source %q after formatting %q", want, got)
	}
	return ""
}

var linePool = []string{"# c", "#", "#  ", "## d #", "A := \"x\\y\"", "B := A", "task a() {\n    b\n}", "task c() { d }", "", "task e(a) -> \"o\" {\n}", "task f() {\n    g  \n    h \t\n}", "task i() { j   }"}

// lineSequences: comments in every position.
func lineSequences(maxLines int, f func(string)) {
	lineSequencesLines(maxLines, func(cur []string) {
		f(strings.Join(cur, "\n"))
		f(strings.Join(cur, "\n") + "\n")
	})
}

func lineSequencesLines(maxLines int, f func([]string)) {
	var rec func(cur []string, n int)
	rec = func(cur []string, n int) {
		if len(cur) > 0 {
			f(cur)
		}
		if n == maxLines {
			return
		}
		for _, p := range linePool {
			rec(append(append([]string{}, cur...), p), n+1)
		}
	}
	rec(nil, 0)
}
