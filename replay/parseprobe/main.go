// parseprobe: property-level oracles for the lexer/parser/printer properties, run against
// the real code of /repo. Used (a) to replay inputs for failed obligations, (b) as the
// witness finder, (c) as the *bounded* stand-in where a composition is not proved.
package main

import (
	"fmt"
	"os"
	"reflect"
	"regexp"
	"runtime"
	"strconv"
	"strings"
	"sync"
	"sync/atomic"
	"time"
	"unicode"

	"github.com/FollowTheProcess/spok/ast"
	"github.com/FollowTheProcess/spok/lexer"
	"github.com/FollowTheProcess/spok/parser"
	"github.com/FollowTheProcess/spok/token"
)

var alphabet = []string{"a", "task", "_", "é", " ", "\t", "\n", "\r", "#", "(", ")", "{", "}", "\"", ",", ":=", "->", "{{", "}}", ".", "1", "\xff", "\u0085", "$", "-", ":", "\\"}

var prefixes = []string{"", "task a() {\n", "task a(", "task a() -> ", "task a() -> (", "A := ", "A := join(", "# ", "task a() { b", "task ", "A := \"", "task a(\"x\", ", "task a() {\n b\n", "# c\n", "A := \"x\" ", "task a() -> \"x\" ", "A := b\n", "task a() { b }\n", "A", "task a() -> (\"x\", ", "A := \"x\" task"}

type parseResult struct {
	tree     ast.Tree
	err      error
	panicked interface{}
	timedOut bool
}

func parseWith(input string, d time.Duration) parseResult {
	ch := make(chan parseResult, 1)
	go func() {
		var r parseResult
		defer func() {
			if p := recover(); p != nil {
				r.panicked = p
			}
			ch <- r
		}()
		r.tree, r.err = parser.New(input).Parse()
	}()
	select {
	case r := <-ch:
		return r
	case <-time.After(d):
		return parseResult{timedOut: true}
	}
}

func lexAll(input string, d time.Duration) ([]token.Token, bool) {
	l := lexer.New(input)
	var toks []token.Token
	done := make(chan struct{})
	go func() {
		defer close(done)
		for i := 0; i < 10*len(input)+50; i++ {
			t := l.NextToken()
			toks = append(toks, t)
			if t.Type == token.EOF || t.Type == token.ERROR {
				return
			}
		}
	}()
	select {
	case <-done:
		return toks, true
	case <-time.After(d):
		return nil, false
	}
}

// ---- oracles: return "" when the property holds on this input ----

func oracleC16(input string) string {
	toks, ok := lexAll(input, 2*time.Second)
	if !ok {
		return "lexer did not deliver a token within 2s"
	}
	if len(toks) == 0 {
		return "no tokens"
	}
	last := toks[len(toks)-1]
	if last.Type != token.EOF && last.Type != token.ERROR {
		return "stream not finite (no EOF/ERROR within bound)"
	}
	end := 0
	for i, t := range toks {
		if t.Type == token.ERROR {
			break
		}
		if t.Pos < end {
			return fmt.Sprintf("token %d overlaps previous: pos %d < end %d", i, t.Pos, end)
		}
		if t.Pos+len(t.Value) > len(input) || input[t.Pos:t.Pos+len(t.Value)] != t.Value {
			return fmt.Sprintf("token %d text %q is not input slice at %d", i, t.Value, t.Pos)
		}
		for _, r := range input[end:t.Pos] {
			if !unicode.IsSpace(r) {
				return fmt.Sprintf("non-space %q between tokens before token %d", r, i)
			}
		}
		if want := 1 + strings.Count(input[:t.Pos], "\n"); t.Line != want {
			return fmt.Sprintf("token %d line %d want %d", i, t.Line, want)
		}
		end = t.Pos + len(t.Value)
		if t.Type == token.EOF && t.Pos != len(input) {
			return fmt.Sprintf("EOF token at %d, input length %d", t.Pos, len(input))
		}
	}
	return ""
}

var lineRe = regexp.MustCompile(`\(Line (\d+)\)`)

func located(msg, input string) string {
	m := lineRe.FindStringSubmatch(msg)
	if m == nil {
		return "error message cites no line: " + strconv.Quote(msg)
	}
	n, _ := strconv.Atoi(m[1])
	lines := strings.Split(input, "\n")
	if n < 1 || n > len(lines) {
		return fmt.Sprintf("error cites line %d, input has %d lines: %q", n, len(lines), msg)
	}
	want := fmt.Sprintf("\n\n%d |\t%s", n, strings.TrimSpace(lines[n-1]))
	if !strings.HasSuffix(msg, want) {
		return fmt.Sprintf("error does not quote line %d (%q): %q", n, strings.TrimSpace(lines[n-1]), msg)
	}
	return ""
}

func oracleC08(input string) string {
	r := parseWith(input, 2*time.Second)
	if r.timedOut {
		return "parse did not terminate within 2s"
	}
	if r.panicked != nil {
		return fmt.Sprintf("panic: %v", r.panicked)
	}
	r2 := parseWith(input, 2*time.Second)
	if r2.timedOut || r2.panicked != nil {
		return "second parse differs (timeout/panic)"
	}
	if (r.err == nil) != (r2.err == nil) || (r.err != nil && r.err.Error() != r2.err.Error()) || !reflect.DeepEqual(r.tree, r2.tree) {
		return "parse is not deterministic"
	}
	if r.err != nil {
		return located(r.err.Error(), input)
	}
	return ""
}

// semantic content of a tree: variables, tasks (without comments)
func content(t ast.Tree) []string {
	var out []string
	for _, n := range t.Nodes {
		switch x := n.(type) {
		case ast.Assign:
			out = append(out, "assign "+x.Name.Name+" = "+x.Value.String())
		case ast.Task:
			s := "task " + x.Name.Name + " deps["
			for _, d := range x.Dependencies {
				s += d.Type().String() + ":" + d.Literal() + ";"
			}
			s += "] outs["
			for _, d := range x.Outputs {
				s += d.Type().String() + ":" + d.Literal() + ";"
			}
			s += "] cmds["
			for _, c := range x.Commands {
				s += strconv.Quote(c.Command) + ";"
			}
			out = append(out, s+"]")
		}
	}
	return out
}

func comments(t ast.Tree) []string {
	var out []string
	for _, n := range t.Nodes {
		switch x := n.(type) {
		case ast.Comment:
			if c := strings.TrimSpace(x.Text); c != "" {
				out = append(out, "comment "+c)
			}
		case ast.Assign:
			out = append(out, "stmt")
		case ast.Task:
			out = append(out, "task "+x.Name.Name+" doc="+strconv.Quote(strings.TrimSpace(x.Docstring.Text)))
		}
	}
	return out
}

func oracleC07(input string) string {
	r := parseWith(input, 2*time.Second)
	if r.timedOut || r.panicked != nil || r.err != nil {
		return ""
	}
	printed := r.tree.String()
	r2 := parseWith(printed, 2*time.Second)
	if r2.timedOut || r2.panicked != nil {
		return "formatted text does not parse (timeout/panic): " + strconv.Quote(printed)
	}
	if r2.err != nil {
		return "formatted text does not parse: " + strconv.Quote(printed) + ": " + r2.err.Error()
	}
	if !reflect.DeepEqual(content(r.tree), content(r2.tree)) {
		return fmt.Sprintf("formatting changed the meaning: %q vs %q", content(r.tree), content(r2.tree))
	}
	return ""
}

func oracleC11(input string) string {
	r := parseWith(input, 2*time.Second)
	if r.timedOut || r.panicked != nil || r.err != nil {
		return ""
	}
	p1 := r.tree.String()
	r2 := parseWith(p1, 2*time.Second)
	if r2.timedOut || r2.panicked != nil || r2.err != nil {
		return "" // C07's business
	}
	if p2 := r2.tree.String(); p2 != p1 {
		return fmt.Sprintf("format not idempotent: %q then %q", p1, p2)
	}
	return ""
}

func oracleC15(input string) string {
	r := parseWith(input, 2*time.Second)
	if r.timedOut || r.panicked != nil || r.err != nil {
		return ""
	}
	r2 := parseWith(r.tree.String(), 2*time.Second)
	if r2.timedOut || r2.panicked != nil || r2.err != nil {
		return ""
	}
	if !reflect.DeepEqual(comments(r.tree), comments(r2.tree)) {
		return fmt.Sprintf("comments/docstrings changed: %q vs %q", comments(r.tree), comments(r2.tree))
	}
	return ""
}

var oracles = map[string]func(string) string{"C16": oracleC16, "C08": oracleC08, "C07": oracleC07, "C11": oracleC11, "C15": oracleC15, "C06": oracleC06}

func main() {
	if len(os.Args) < 3 {
		fmt.Fprintln(os.Stderr, "usage: parseprobe oracle <prop> <file> | search <prop> <depth> [max-failures]")
		os.Exit(2)
	}
	or := oracles[os.Args[2]]
	if or == nil {
		fmt.Fprintln(os.Stderr, "no oracle for", os.Args[2])
		os.Exit(2)
	}
	switch os.Args[1] {
	case "oracle":
		data, err := os.ReadFile(os.Args[3])
		if err != nil {
			fmt.Fprintln(os.Stderr, err)
			os.Exit(2)
		}
		if msg := or(string(data)); msg != "" {
			fmt.Printf("FAIL %s on %q: %s\n", os.Args[2], string(data), msg)
			os.Exit(1)
		}
		fmt.Printf("ok %s on %q\n", os.Args[2], string(data))
	case "search":
		depth, _ := strconv.Atoi(os.Args[3])
		maxFail := 5
		if len(os.Args) > 4 {
			maxFail, _ = strconv.Atoi(os.Args[4])
		}
		search(os.Args[2], or, depth, maxFail)
	}
}

func searchC06(maxFail int) {
	var total int64
	var mu sync.Mutex
	var fails []string
	type job struct {
		prog []absStmt
		l    layout
	}
	work := make(chan job, 1024)
	var wg sync.WaitGroup
	for i := 0; i < runtime.NumCPU(); i++ {
		wg.Add(1)
		go func() {
			defer wg.Done()
			for j := range work {
				atomic.AddInt64(&total, 1)
				if text, msg := oracleC06Program(j.prog, j.l); msg != "" {
					mu.Lock()
					if len(fails) < maxFail {
						fails = append(fails, fmt.Sprintf("%q: %s", text, msg))
					}
					mu.Unlock()
				}
			}
		}()
	}
	ls := layouts()
	for _, prog := range programs() {
		for _, l := range ls {
			if os.Getenv("PARSEPROBE_NO_CRLF") != "" && l.nl != "\n" {
				continue
			}
			mu.Lock()
			stop := len(fails) >= maxFail
			mu.Unlock()
			if stop {
				break
			}
			work <- job{prog, l}
		}
	}
	close(work)
	wg.Wait()
	fmt.Printf("SEARCH prop=C06 programs=%d layouts=%d evaluated=%d failures=%d\n", len(programs()), len(ls), total, len(fails))
	for _, f := range fails {
		fmt.Println("FAILING-INPUT", f)
	}
	if len(fails) > 0 {
		os.Exit(1)
	}
}

func search(prop string, or func(string) string, depth, maxFail int) {
	if prop == "C06" {
		searchC06(maxFail)
		return
	}
	var total, nontrivial int64
	var mu sync.Mutex
	var fails []string
	work := make(chan string, 1024)
	var wg sync.WaitGroup
	for i := 0; i < runtime.NumCPU(); i++ {
		wg.Add(1)
		go func() {
			defer wg.Done()
			for s := range work {
				atomic.AddInt64(&total, 1)
				if msg := or(s); msg != "" {
					mu.Lock()
					if len(fails) < maxFail {
						fails = append(fails, fmt.Sprintf("%q: %s", s, msg))
					}
					if len(fails) >= maxFail {
						// stop at once: hung parses may be spinning in leaked goroutines
						fmt.Printf("SEARCH prop=%s depth=%d evaluated=%d failures=%d (stopped early)\n", prop, depth, atomic.LoadInt64(&total), len(fails))
						for _, f := range fails {
							fmt.Println("FAILING-INPUT", f)
						}
						os.Exit(1)
					}
					mu.Unlock()
				}
			}
		}()
	}
	var gen func(prefix string, d int)
	gen = func(cur string, d int) {
		work <- cur
		if d == 0 {
			return
		}
		for _, a := range alphabet {
			gen(cur+a, d-1)
		}
	}
	if prop != "C06" {
		for pi, p := range prefixes {
			d := depth
			if pi > 0 {
				d = depth - 1
			}
			gen(p, d)
		}
	}
	if prop == "C15" {
		// comments / docstrings read off the source lines (independent of the lexer)
		lineSequencesLines(depth, func(lines []string) {
			for _, final := range []string{"", "\n"} {
				atomic.AddInt64(&total, 1)
				if msg := oracleC15Lines(lines, final); msg != "" {
					mu.Lock()
					if len(fails) < maxFail {
						fails = append(fails, fmt.Sprintf("%q: %s", strings.Join(lines, "\n")+final, msg))
					}
					mu.Unlock()
				}
			}
		})
	}
	if prop == "C07" || prop == "C11" || prop == "C15" || prop == "C06" {
		// structured inputs: comment/blank/statement line sequences and the generated programs of C06
		// in all their layouts
		lineSequences(depth, func(s string) { work <- s })
		ls := layouts()
		for _, prog := range programs() {
			for _, l := range ls {
				work <- render(prog, l)
			}
		}
	}
	close(work)
	wg.Wait()
	nontrivial = total
	fmt.Printf("SEARCH prop=%s depth=%d evaluated=%d failures=%d\n", prop, depth, total, len(fails))
	_ = nontrivial
	for _, f := range fails {
		fmt.Println("FAILING-INPUT", f)
	}
	if len(fails) > 0 {
		os.Exit(1)
	}
}
