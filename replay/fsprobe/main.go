// fsprobe: property-level oracles over small directory trees against the real code
// (C17 file.Find). Witness finder / replay only.
package main

import (
	"encoding/json"
	"fmt"
	"io"
	"os"
	"path/filepath"
	"strings"
	"time"

	"github.com/FollowTheProcess/spok/cli/app"
	"github.com/FollowTheProcess/spok/file"
	"github.com/FollowTheProcess/spok/iostream"
	"github.com/FollowTheProcess/spok/parser"
	"github.com/FollowTheProcess/spok/shell"
	"sort"
)

type nopLogger struct{}

func (nopLogger) Sync() error                  { return nil }
func (nopLogger) Debug(string, ...interface{}) {}

var contents = []string{"", "a", "z", "S", "D", "aS", "Sz", "aD", "aSz"} // a/z other files, S regular spokfile, D directory named spokfile

func populate(dir, c string) {
	for _, ch := range c {
		switch ch {
		case 'a':
			os.WriteFile(filepath.Join(dir, "a.txt"), []byte("x"), 0o644)
		case 'z':
			os.WriteFile(filepath.Join(dir, "z.txt"), []byte("x"), 0o644)
		case 'S':
			os.WriteFile(filepath.Join(dir, "spokfile"), []byte("# s\n"), 0o644)
		case 'D':
			os.MkdirAll(filepath.Join(dir, "spokfile"), 0o755)
		}
	}
}

func findWithWatchdog(start, stop string) (string, error, bool) {
	type res struct {
		p   string
		err error
	}
	ch := make(chan res, 1)
	go func() {
		p, err := file.Find(nopLogger{}, start, stop)
		ch <- res{p, err}
	}()
	select {
	case r := <-ch:
		return r.p, r.err, true
	case <-time.After(2 * time.Second):
		return "", nil, false
	}
}

func properAncestor(a, b string) bool {
	return a != b && strings.HasPrefix(b, strings.TrimSuffix(a, "/")+"/")
}

func c17() []string {
	var fails []string
	total := 0
	depth := 3
	// levels: root/l1/l2/l3 ; every combination of contents at 3 levels (root kept empty), start level, stop choice
	for _, c1 := range contents {
		for _, c2 := range contents {
			for _, c3 := range contents {
				base, _ := os.MkdirTemp("", "fsprobe-")
				base, _ = filepath.EvalSymlinks(base)
				levels := []string{filepath.Join(base, "l1")}
				levels = append(levels, filepath.Join(levels[0], "l2"))
				levels = append(levels, filepath.Join(levels[1], "l3"))
				os.MkdirAll(levels[2], 0o755)
				unrelated := filepath.Join(base, "other")
				os.MkdirAll(unrelated, 0o755)
				cs := []string{c1, c2, c3}
				for i, l := range levels {
					populate(l, cs[i])
				}
				stops := append(append([]string{}, levels...), unrelated)
				for si := 0; si < depth; si++ {
					for _, stop := range stops {
						total++
						start := levels[si]
						// reference: nearest candidate (ancestor-or-self of start, not a proper ancestor of stop) with a regular spokfile
						want := ""
						for d := start; ; d = filepath.Dir(d) {
							if properAncestor(d, stop) {
								break
							}
							if fi, err := os.Stat(filepath.Join(d, "spokfile")); err == nil && !fi.IsDir() {
								want = filepath.Join(d, "spokfile")
								break
							}
							if d == stop || filepath.Dir(d) == d {
								break
							}
							// do not climb above the temp base: everything above is outside the experiment but must not hold a spokfile anyway
						}
						got, err, done := findWithWatchdog(start, stop)
						desc := fmt.Sprintf("levels l1=%q l2=%q l3=%q start=l%d stop=%s", c1, c2, c3, si+1, strings.TrimPrefix(stop, base))
						switch {
						case !done:
							fails = append(fails, desc+": Find did not terminate within 2s")
						case want == "" && err == nil:
							fails = append(fails, desc+": expected 'not found', got "+strings.TrimPrefix(got, base))
						case want != "" && (err != nil || got != want):
							fails = append(fails, fmt.Sprintf("%s: expected %s, got %q err %v", desc, strings.TrimPrefix(want, base), strings.TrimPrefix(got, base), err))
						}
						if len(fails) >= 3 {
							os.RemoveAll(base)
							fmt.Printf("SEARCH prop=C17 cases=%d failures=%d (stopped early)\n", total, len(fails))
							return fails
						}
					}
				}
				os.RemoveAll(base)
			}
		}
	}
	fmt.Printf("SEARCH prop=C17 cases=%d failures=%d\n", total, len(fails))
	return fails
}

func main() {
	if len(os.Args) < 3 || os.Args[1] != "search" {
		fmt.Fprintln(os.Stderr, "usage: fsprobe search C17")
		os.Exit(2)
	}
	var fails []string
	switch os.Args[2] {
	case "C17":
		fails = c17()
	case "C05":
		fails = c05()
	case "C12":
		fails = c12()
	case "C19":
		fails = c19()
	case "C20":
		fails = c20()
	}
	for _, f := range fails {
		fmt.Println("FAILING-CASE", f)
	}
	if len(fails) > 0 {
		os.Exit(1)
	}
}

// ---- C05: glob expansion vs an independent reference matcher over all subsets of a pool of paths ----

type okRunner struct{}

func (okRunner) Run(cmd string, _ iostream.IOStream, _ string, _ []string) (shell.Result, error) {
	return shell.Result{Cmd: cmd}, nil
}

// matchSegs: reference matcher. '*' matches any run of non-separator characters inside one segment,
// a segment '**' matches any number of whole segments (including none).
func matchSeg(pat, name string) bool {
	if pat == "" {
		return name == ""
	}
	if pat[0] == '*' {
		for i := 0; i <= len(name); i++ {
			if matchSeg(pat[1:], name[i:]) {
				return true
			}
		}
		return false
	}
	return name != "" && pat[0] == name[0] && matchSeg(pat[1:], name[1:])
}

func matchSegs(pat, path []string) bool {
	if len(pat) == 0 {
		return len(path) == 0
	}
	if pat[0] == "**" {
		for i := 0; i <= len(path); i++ {
			if matchSegs(pat[1:], path[i:]) {
				return true
			}
		}
		return false
	}
	return len(path) > 0 && matchSeg(pat[0], path[0]) && matchSegs(pat[1:], path[1:])
}

func c05() []string {
	pool := []string{"a.js", "b.txt", ".hid.js", "sub/c.js", "sub/.h2/y.js", ".h/x.js", "sub/d.txt", "z.js"}
	patterns := []string{"*.js", "**/*.js", "sub/*", "*/*", "**", "sub/**", "*"}
	var fails []string
	total := 0
	for mask := 1; mask < 1<<len(pool); mask++ {
		base, _ := os.MkdirTemp("", "fsprobe-")
		base, _ = filepath.EvalSymlinks(base)
		var files []string
		for i, p := range pool {
			if mask&(1<<i) != 0 {
				os.MkdirAll(filepath.Join(base, filepath.Dir(p)), 0o755)
				os.WriteFile(filepath.Join(base, p), []byte("x"), 0o644)
				files = append(files, p)
			}
		}
		for _, pat := range patterns {
			total++
			text := "task t(\"" + pat + "\") {\n echo t\n}\n"
			tree, err := parser.New(text).Parse()
			if err != nil {
				fails = append(fails, "parse: "+err.Error())
				continue
			}
			sf, err := file.New(tree, base, nopLogger{})
			if err != nil {
				fails = append(fails, "file.New: "+err.Error())
				continue
			}
			if _, err := sf.Run(iostream.Null(), okRunner{}, true, "t"); err != nil {
				fails = append(fails, fmt.Sprintf("tree %v pattern %q: Run error %v", files, pat, err))
				continue
			}
			var got []string
			for _, g := range sf.Globs[pat] {
				if fi, err := os.Stat(g); err == nil && !fi.IsDir() {
					got = append(got, strings.TrimPrefix(g, base+"/"))
				}
			}
			sort.Strings(got)
			var want []string
			for _, f := range files {
				if !strings.HasPrefix(f, ".") && matchSegs(strings.Split(pat, "/"), strings.Split(f, "/")) {
					want = append(want, f)
				}
			}
			sort.Strings(want)
			if strings.Join(got, ",") != strings.Join(want, ",") {
				fails = append(fails, fmt.Sprintf("tree %v pattern %q: expanded to files %v, reference matcher says %v", files, pat, got, want))
			}
			if len(fails) >= 3 {
				os.RemoveAll(base)
				os.RemoveAll(filepath.Join(base, ".spok"))
				fmt.Printf("SEARCH prop=C05 cases=%d failures=%d (stopped early)\n", total, len(fails))
				return fails
			}
		}
		os.RemoveAll(base)
	}
	fmt.Printf("SEARCH prop=C05 cases=%d failures=%d\n", total, len(fails))
	return fails
}

// ---- C12: --clean removes exactly the declared outputs and the cache, never the project ----

func snapshotTree(root string) map[string]string {
	out := map[string]string{}
	filepath.Walk(root, func(p string, info os.FileInfo, err error) error {
		if err != nil {
			return nil
		}
		rel, _ := filepath.Rel(root, p)
		if info.IsDir() {
			out[rel] = "<dir>"
		} else {
			b, _ := os.ReadFile(p)
			out[rel] = string(b)
		}
		return nil
	})
	return out
}

func c12() []string {
	type outSpec struct {
		decl  string   // text after "->" in the task header
		vars  string   // variable definitions needed
		paths []string // relative paths designated (files or dirs), "<unsafe>" if it designates the project dir or above
	}
	specs := []outSpec{
		{`"out.txt"`, "", []string{"out.txt"}},
		{`"build"`, "", []string{"build"}},
		{`"missing.bin"`, "", []string{"missing.bin"}},
		{`"*.o"`, "", []string{"a.o", "b.o"}},
		{`"sub/*.o"`, "", []string{"sub/c.o"}},
		{`BIN`, "BIN := \"named.txt\"\n", []string{"named.txt"}},
		{`""`, "", []string{"<unsafe>"}},
		{`"."`, "", []string{"<unsafe>"}},
		{`EMPTY`, "EMPTY := \"\"\n", []string{"<unsafe>"}},
		{`"build/.."`, "", []string{"<unsafe>"}},
		{`"*"`, "", []string{"<unsafe>"}}, // matches the spokfile itself
	}
	var fails []string
	total := 0
	cwd0, _ := os.Getwd()
	defer os.Chdir(cwd0)
	for i := 0; i < len(specs); i++ {
		for j := i; j < len(specs); j++ {
			for _, withCleanTask := range []bool{false, true} {
				total++
				base, _ := os.MkdirTemp("", "fsprobe-")
				base, _ = filepath.EvalSymlinks(base)
				proj := filepath.Join(base, "home", "proj")
				os.MkdirAll(filepath.Join(proj, "sub"), 0o755)
				os.MkdirAll(filepath.Join(proj, "build", "deep"), 0o755)
				os.MkdirAll(filepath.Join(proj, ".spok"), 0o755)
				for _, f := range []string{"out.txt", "keep.txt", "a.o", "b.o", "sub/c.o", "sub/keep.c", "named.txt", "build/deep/x", ".spok/cache.json", ".hidden.o"} {
					os.WriteFile(filepath.Join(proj, f), []byte("data:"+f), 0o644)
				}
				os.WriteFile(filepath.Join(base, "home", "outside.txt"), []byte("outside"), 0o644)
				use := []outSpec{specs[i]}
				if j != i {
					use = append(use, specs[j])
				}
				text := ""
				for _, u := range use {
					text += u.vars
				}
				for k, u := range use {
					text += fmt.Sprintf("task t%c() -> %s {\n echo hi\n}\n", rune(97+k), u.decl)
				}
				if withCleanTask {
					text += "task clean() {\n echo cleaning\n}\n"
				}
				os.WriteFile(filepath.Join(proj, "spokfile"), []byte(text), 0o644)
				os.Setenv("HOME", filepath.Join(base, "home"))
				os.Chdir(proj)
				before := snapshotTree(base)
				a := app.New(iostream.Null())
				a.Options.Spokfile = filepath.Join(proj, "spokfile")
				a.Options.Clean = true
				err := a.Run(nil)
				after := snapshotTree(base)
				os.Chdir(cwd0)
				// expectation
				want := map[string]bool{}
				unsafe := false
				for _, u := range use {
					for _, p := range u.paths {
						if p == "<unsafe>" {
							unsafe = true
						} else {
							want[filepath.Join("home", "proj", p)] = true
						}
					}
				}
				want[filepath.Join("home", "proj", ".spok")] = true
				if withCleanTask || unsafe {
					want = map[string]bool{}
				}
				desc := fmt.Sprintf("spokfile %q", text)
				if unsafe && !withCleanTask && err == nil {
					fails = append(fails, desc+": an output designates the project directory (or the spokfile) but --clean reported success")
				}
				for p, v := range before {
					_, still := after[p]
					gone := !still
					expectGone := false
					for w := range want {
						if p == w || strings.HasPrefix(p, w+"/") {
							expectGone = true
						}
					}
					if withCleanTask && strings.HasPrefix(p, filepath.Join("home", "proj", ".spok")) {
						continue // the user's clean task ran through spok: the cache may be (re)written
					}
					if gone && !expectGone {
						fails = append(fails, fmt.Sprintf("%s: --clean removed %s which is not a declared output", desc, p))
						break
					}
					if !gone && expectGone {
						fails = append(fails, fmt.Sprintf("%s: --clean left %s which is a declared output (err=%v)", desc, p, err))
						break
					}
					if still && after[p] != v && !strings.Contains(p, ".spok") {
						fails = append(fails, fmt.Sprintf("%s: --clean modified %s", desc, p))
						break
					}
				}
				os.RemoveAll(base)
				if len(fails) >= 3 {
					fmt.Printf("SEARCH prop=C12 cases=%d failures=%d (stopped early)\n", total, len(fails))
					return fails
				}
			}
		}
	}
	fmt.Printf("SEARCH prop=C12 cases=%d failures=%d\n", total, len(fails))
	return fails
}

// ---- C19: every action writes only where it may (snapshot of a sandbox HOME before/after) ----

func c19() []string {
	type action struct {
		name string
		set  func(o *app.Options)
		args []string
	}
	actions := []action{
		{"no-args", func(o *app.Options) {}, nil},
		{"task", func(o *app.Options) {}, []string{"a"}},
		{"task-force", func(o *app.Options) { o.Force = true }, []string{"a"}},
		{"show", func(o *app.Options) { o.Show = true }, nil},
		{"vars", func(o *app.Options) { o.Variables = true }, nil},
		{"fmt", func(o *app.Options) { o.Fmt = true }, nil},
		{"init", func(o *app.Options) { o.Init = true }, nil},
		{"quiet", func(o *app.Options) { o.Quiet = true }, []string{"a"}},
		{"json", func(o *app.Options) { o.JSON = true }, []string{"a"}},
	}
	spokfiles := map[string]string{
		"valid":       "X := \"1\"\n# doc\ntask a(\"*.txt\") {\n    true\n}\n",
		"unformatted": "X:=\"1\"\ntask   a( ) {\n true\n}\n",
		"noparse":     "task a( {\n",
		"noload":      "task a() {\n true\n}\ntask a() {\n true\n}\n",
		"absent":      "",
	}
	var names []string
	for n := range spokfiles {
		names = append(names, n)
	}
	sort.Strings(names)
	var fails []string
	total := 0
	cwd0, _ := os.Getwd()
	defer os.Chdir(cwd0)
	// --json prints to the process's standard output: keep it out of the probe's own report
	realOut := os.Stdout
	if dn, err := os.OpenFile(os.DevNull, os.O_WRONLY, 0); err == nil {
		os.Stdout = dn
		defer func() { os.Stdout = realOut }()
	}
	for _, sn := range names {
		for _, act := range actions {
			for _, nested := range []bool{false, true} {
				for _, explicit := range []bool{false, true} {
					if explicit && (sn == "absent" || act.name == "init") {
						continue
					}
					total++
					base, _ := os.MkdirTemp("", "fsprobe-")
					base, _ = filepath.EvalSymlinks(base)
					proj := filepath.Join(base, "home", "proj")
					os.MkdirAll(filepath.Join(proj, "sub", "deep"), 0o755)
					for _, f := range []string{"keep.txt", "sub/keep.c", "sub/deep/x.txt", ".gitignore", ".env"} {
						os.WriteFile(filepath.Join(proj, f), []byte("data:"+f+"\n"), 0o644)
					}
					os.WriteFile(filepath.Join(base, "home", "outside.txt"), []byte("outside"), 0o644)
					text := spokfiles[sn]
					if sn != "absent" {
						os.WriteFile(filepath.Join(proj, "spokfile"), []byte(text), 0o644)
					}
					os.Setenv("HOME", filepath.Join(base, "home"))
					cwd := proj
					if nested {
						cwd = filepath.Join(proj, "sub", "deep")
					}
					os.Chdir(cwd)
					before := snapshotTree(base)
					a := app.New(iostream.Null())
					act.set(a.Options)
					if explicit {
						a.Options.Spokfile = filepath.Join(proj, "spokfile")
					}
					err := a.Run(act.args)
					after := snapshotTree(base)
					os.Chdir(cwd0)
					relCwd, _ := filepath.Rel(base, cwd)
					spokRel := filepath.Join("home", "proj", "spokfile")
					cacheRel := filepath.Join("home", "proj", ".spok")
					desc := fmt.Sprintf("spokfile=%s action=%s cwd=%s explicit=%v", sn, act.name, relCwd, explicit)
					allowed := func(p string) bool {
						if p == cacheRel || strings.HasPrefix(p, cacheRel+"/") {
							return act.name != "init"
						}
						switch act.name {
						case "fmt":
							return p == spokRel && (sn == "valid" || sn == "unformatted")
						case "init":
							return (p == filepath.Join(relCwd, "spokfile") && before[p] == "" && !hasKey(before, p)) || p == filepath.Join(relCwd, ".gitignore")
						}
						return false
					}
					var changed []string
					for p, v := range before {
						nv, still := after[p]
						if !still || nv != v {
							changed = append(changed, p)
						}
					}
					for p := range after {
						if !hasKey(before, p) {
							changed = append(changed, p)
						}
					}
					sort.Strings(changed)
					for _, p := range changed {
						if !allowed(p) {
							fails = append(fails, fmt.Sprintf("%s: %s was created, changed or deleted (err=%v)", desc, p, err))
							break
						}
					}
					if act.name == "init" {
						gi := filepath.Join(relCwd, ".gitignore")
						if hasKey(before, gi) && err == nil && !strings.HasPrefix(after[gi], before[gi]) {
							fails = append(fails, desc+": .gitignore was not appended to")
						}
						sp := filepath.Join(relCwd, "spokfile")
						if hasKey(before, sp) && (err == nil || after[sp] != before[sp]) {
							fails = append(fails, desc+": --init with an existing spokfile did not fail or overwrote it")
						}
					}
					if act.name == "fmt" && (sn == "noparse" || sn == "noload") && (err == nil || after[spokRel] != before[spokRel]) {
						fails = append(fails, desc+": --fmt on a spokfile that does not parse/load did not fail or rewrote it")
					}
					os.RemoveAll(base)
					if len(fails) >= 3 {
						fmt.Fprintf(realOut, "SEARCH prop=C19 cases=%d failures=%d (stopped early)\n", total, len(fails))
						return fails
					}
				}
			}
		}
	}
	fmt.Fprintf(realOut, "SEARCH prop=C19 cases=%d failures=%d\n", total, len(fails))
	return fails
}

func hasKey(m map[string]string, k string) bool { _, ok := m[k]; return ok }

// ---- C20: reports and listings vs what actually ran (stdout of App.Run captured through a pipe) ----

func captureStdout(f func()) string {
	old := os.Stdout
	r, w, err := os.Pipe()
	if err != nil {
		return ""
	}
	os.Stdout = w
	done := make(chan string)
	go func() {
		b, _ := io.ReadAll(r)
		done <- string(b)
	}()
	f()
	w.Close()
	os.Stdout = old
	return <-done
}

func c20() []string {
	type tk struct {
		name, doc string
		deps      []string
		cmds      []string
	}
	projects := [][]tk{
		{{"build", "Build the bindings for C#", nil, []string{"echo out-build", "echo err-build 1>&2"}}},
		{{"zeta", "", []string{"\"dep.txt\""}, []string{"echo z"}}, {"alpha", "Check coverage is 100% of lines", []string{"zeta"}, []string{"echo a1", "echo a2"}}},
		{{"default", "The default", nil, []string{"echo dflt"}}, {"other", "Other", nil, nil}},
		{{"b", "bee", nil, []string{"echo b"}}, {"a", "ay", []string{"b"}, []string{"echo a"}}, {"c", "", []string{"a", "b"}, []string{"echo c; echo c2"}}},
	}
	var fails []string
	total := 0
	cwd0, _ := os.Getwd()
	defer os.Chdir(cwd0)
	for pi, proj := range projects {
		text := "VB := \"one\"\nVA := \"zero\"\nVC := \"-mod=mod -X a=b\"\n"
		hasDefault := false
		for _, t := range proj {
			if t.doc != "" {
				text += "# " + t.doc + "\n"
			}
			deps := ""
			for i, d := range t.deps {
				if i > 0 {
					deps += ", "
				}
				deps += d
			}
			text += "task " + t.name + "(" + deps + ") {\n"
			for _, cm := range t.cmds {
				text += "    " + cm + "\n"
			}
			text += "}\n\n"
			if t.name == "default" {
				hasDefault = true
			}
		}
		last := proj[len(proj)-1].name
		for _, mode := range []string{"json", "json-second-run", "json-noargs", "quiet", "show", "vars", "noargs"} {
			total++
			base, _ := os.MkdirTemp("", "fsprobe-")
			base, _ = filepath.EvalSymlinks(base)
			os.WriteFile(filepath.Join(base, "spokfile"), []byte(text), 0o644)
			os.WriteFile(filepath.Join(base, "dep.txt"), []byte("dep"), 0o644)
			os.Setenv("HOME", base)
			os.Chdir(base)
			desc := fmt.Sprintf("project %d mode %s", pi, mode)
			run := func(set func(o *app.Options), args []string) (string, error) {
				var err error
				out := captureStdout(func() {
					a := app.New(iostream.OS())
					a.Options.Spokfile = filepath.Join(base, "spokfile")
					set(a.Options)
					err = a.Run(args)
				})
				return out, err
			}
			switch mode {
			case "json", "json-second-run":
				if mode == "json-second-run" {
					run(func(o *app.Options) { o.Quiet = true }, []string{last})
				}
				out, err := run(func(o *app.Options) { o.JSON = true }, []string{last})
				var got []struct {
					Task    string `json:"task"`
					Results []struct {
						Cmd    string `json:"cmd"`
						Stdout string `json:"stdout"`
						Stderr string `json:"stderr"`
						Status int    `json:"status"`
					} `json:"results"`
					Skipped bool `json:"skipped"`
				}
				if err != nil {
					fails = append(fails, fmt.Sprintf("%s: unexpected error %v", desc, err))
					break
				}
				if jerr := json.Unmarshal([]byte(strings.TrimSpace(out)), &got); jerr != nil || strings.Count(strings.TrimSpace(out), "\n") != 0 {
					fails = append(fails, fmt.Sprintf("%s: stdout is not a single JSON document: %q", desc, out))
					break
				}
				// expected order: dependencies first (the projects are chosen so that the order is unique)
				var want []string
				seen := map[string]bool{}
				var visit func(n string)
				visit = func(n string) {
					if seen[n] {
						return
					}
					seen[n] = true
					for _, t := range proj {
						if t.name == n {
							for _, d := range t.deps {
								if !strings.HasPrefix(d, "\"") { // a file dependency, not a task
									visit(d)
								}
							}
						}
					}
					want = append(want, n)
				}
				visit(last)
				if len(got) != len(want) {
					fails = append(fails, fmt.Sprintf("%s: report lists %d tasks, the run had %d", desc, len(got), len(want)))
					break
				}
				for i, n := range want {
					if got[i].Task != n {
						fails = append(fails, fmt.Sprintf("%s: report position %d is %q, execution order says %q", desc, i, got[i].Task, n))
						break
					}
					var t tk
					for _, x := range proj {
						if x.name == n {
							t = x
						}
					}
					if got[i].Skipped {
						continue
					}
					if len(got[i].Results) != len(t.cmds) {
						fails = append(fails, fmt.Sprintf("%s: task %s reports %d commands, it has %d", desc, n, len(got[i].Results), len(t.cmds)))
						break
					}
					for k, cm := range t.cmds {
						r := got[i].Results[k]
						wantOut, wantErr := "", ""
						for _, part := range strings.Split(cm, ";") {
							part = strings.TrimSpace(part)
							w := strings.TrimPrefix(part, "echo ")
							if strings.HasSuffix(w, " 1>&2") {
								wantErr += strings.TrimSuffix(w, " 1>&2") + "\n"
							} else {
								wantOut += w + "\n"
							}
						}
						if r.Cmd != cm || r.Stdout != wantOut || r.Stderr != wantErr || r.Status != 0 {
							fails = append(fails, fmt.Sprintf("%s: task %s command %d reported as %+v", desc, n, k, r))
						}
					}
				}
			case "json-noargs":
				if !hasDefault {
					break
				}
				out, err := run(func(o *app.Options) { o.JSON = true }, nil)
				var any []map[string]interface{}
				if err != nil || json.Unmarshal([]byte(strings.TrimSpace(out)), &any) != nil || strings.Count(strings.TrimSpace(out), "\n") != 0 {
					fails = append(fails, fmt.Sprintf("%s: --json without task names (default task): stdout is not a single JSON document: %q (err=%v)", desc, out, err))
				}
			case "quiet":
				out, _ := run(func(o *app.Options) { o.Quiet = true }, []string{last})
				if out != "" {
					fails = append(fails, fmt.Sprintf("%s: --quiet printed %q", desc, out))
				}
			case "show", "noargs":
				out, _ := run(func(o *app.Options) { o.Show = mode == "show" }, nil)
				if mode == "noargs" && hasDefault {
					if !strings.Contains(out, "dflt") {
						fails = append(fails, fmt.Sprintf("%s: no task names given and a task named default exists, but it was not run: %q", desc, out))
					}
					break
				}
				var names []string
				for _, t := range proj {
					names = append(names, t.name)
				}
				sort.Strings(names)
				pos := 0
				for _, n := range names {
					i := strings.Index(out[pos:], n)
					if i < 0 {
						fails = append(fails, fmt.Sprintf("%s: listing does not show %q in sorted position: %q", desc, n, out))
						break
					}
					pos += i + len(n)
				}
				for _, t := range proj {
					if t.doc != "" && !strings.Contains(out, t.doc) {
						fails = append(fails, fmt.Sprintf("%s: listing does not show the docstring %q", desc, t.doc))
					}
				}
			case "vars":
				out, _ := run(func(o *app.Options) { o.Variables = true }, nil)
				i0, i1 := strings.Index(out, "VA"), strings.Index(out, "VB")
				if i0 < 0 || i1 < 0 || i0 > i1 || !strings.Contains(out, "zero") || !strings.Contains(out, "one") || !strings.Contains(out, "-mod=mod -X a=b") {
					fails = append(fails, fmt.Sprintf("%s: --vars output %q", desc, out))
				}
			}
			os.Chdir(cwd0)
			os.RemoveAll(base)
			if len(fails) >= 3 {
				fmt.Printf("SEARCH prop=C20 cases=%d failures=%d (stopped early)\n", total, len(fails))
				return fails
			}
		}
	}
	fmt.Printf("SEARCH prop=C20 cases=%d failures=%d\n", total, len(fails))
	return fails
}
