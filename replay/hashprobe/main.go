// hashprobe: property-level oracle for C04 / C18 against the real hash.New().Hash.
// `hashprobe search C04|C18` runs a bounded set of cases; crashes are observed by running
// each C18 case in a child process (`hashprobe child <case>`).
package main

import (
	"fmt"
	"os"
	"os/exec"
	"path/filepath"
	"runtime"
	"sort"
	"strings"
	"time"

	"github.com/FollowTheProcess/spok/hash"
)

func mk(dir string, files map[string]string) []string {
	var paths []string
	for name, content := range files {
		p := filepath.Join(dir, name)
		os.MkdirAll(filepath.Dir(p), 0o755)
		if content == "<dir>" {
			os.MkdirAll(p, 0o755)
		} else {
			os.WriteFile(p, []byte(content), 0o644)
		}
		paths = append(paths, p)
	}
	sort.Strings(paths)
	return paths
}

func digest(paths []string) (string, error) { return hash.New().Hash(paths) }

func c04() []string {
	var fails []string
	dir, _ := os.MkdirTemp("", "hashprobe-")
	defer os.RemoveAll(dir)
	base := map[string]string{"a": "1", "ab": "2", "b": "", "d/x": "3", "sub": "<dir>"}
	paths := mk(dir, base)
	d0, err := digest(paths)
	if err != nil {
		return []string{"base digest failed: " + err.Error()}
	}
	// order independence, many repetitions, several GOMAXPROCS
	for _, procs := range []int{1, 2, 4, 16} {
		runtime.GOMAXPROCS(procs)
		for rep := 0; rep < 20; rep++ {
			perm := append([]string{}, paths...)
			for i := range perm {
				j := (i*7 + rep*3 + 1) % len(perm)
				perm[i], perm[j] = perm[j], perm[i]
			}
			d, err := digest(perm)
			if err != nil || d != d0 {
				fails = append(fails, fmt.Sprintf("order/schedule dependence: GOMAXPROCS=%d perm=%v digest %s != %s (err %v)", procs, perm, d, d0, err))
				return fails
			}
		}
	}
	// directories ignored
	var nodirs []string
	for _, p := range paths {
		if !strings.HasSuffix(p, "sub") {
			nodirs = append(nodirs, p)
		}
	}
	if d, _ := digest(nodirs); d != d0 {
		fails = append(fails, "a directory in the list changes the digest")
	}
	// change sensitivity
	changes := []map[string]string{
		{"a": "1x", "ab": "2", "b": "", "d/x": "3", "sub": "<dir>"},          // content
		{"a": "1", "ab": "2", "b": "", "d/x": "3", "sub": "<dir>", "c": ""},  // add empty file
		{"a": "1", "ab": "2", "d/x": "3", "sub": "<dir>"},                    // remove (empty) file
		{"a": "2", "ab": "1", "b": "", "d/x": "3", "sub": "<dir>"},           // swap contents
		{"a": "1", "ab": "2", "b": "", "d/y": "3", "sub": "<dir>"},           // rename
		{"a": "1", "ab": "2", "b": "x", "d/x": "3", "sub": "<dir>"},          // empty file gets content
	}
	for i, ch := range changes {
		d2dir, _ := os.MkdirTemp("", "hashprobe-")
		// same directory name is needed for equal paths: rebuild in place instead
		os.RemoveAll(d2dir)
		os.RemoveAll(dir)
		os.MkdirAll(dir, 0o755)
		p2 := mk(dir, ch)
		d, err := digest(p2)
		if err != nil {
			fails = append(fails, fmt.Sprintf("change %d: error %v", i, err))
			continue
		}
		if d == d0 {
			fails = append(fails, fmt.Sprintf("change %d (%v) does not change the digest", i, ch))
		}
	}
	return fails
}

func c18child(kind string) {
	dir, _ := os.MkdirTemp("", "hashprobe-")
	defer os.RemoveAll(dir)
	paths := mk(dir, map[string]string{"a": "1", "b": "2", "c": "3"})
	switch kind {
	case "missing-first":
		paths = append([]string{filepath.Join(dir, "nope")}, paths...)
	case "missing-last":
		paths = append(paths, filepath.Join(dir, "nope"))
	case "dangling":
		os.Symlink(filepath.Join(dir, "gone"), filepath.Join(dir, "link"))
		paths = append(paths, filepath.Join(dir, "link"))
	case "empty":
		paths = nil
	case "dups":
		paths = append(paths, paths...)
	case "many":
		for i := 0; i < 2000; i++ {
			paths = append(paths, paths[i%3])
		}
	case "only-missing":
		paths = []string{filepath.Join(dir, "nope")}
	}
	done := make(chan struct{})
	var d string
	var err error
	go func() { d, err = digest(paths); close(done) }()
	select {
	case <-done:
	case <-time.After(20 * time.Second):
		fmt.Println("DEADLOCK-OR-HANG")
		os.Exit(3)
	}
	missing := strings.Contains(kind, "missing") || kind == "dangling"
	if missing && (err == nil || d != "") {
		fmt.Printf("BAD: unreadable file gave digest %q err %v\n", d, err)
		os.Exit(4)
	}
	if !missing && err != nil {
		fmt.Printf("BAD: unexpected error %v\n", err)
		os.Exit(5)
	}
	fmt.Println("OK")
}

func c18() []string {
	var fails []string
	self, _ := os.Executable()
	for _, k := range []string{"missing-first", "missing-last", "dangling", "empty", "dups", "many", "only-missing"} {
		out, err := exec.Command(self, "child", k).CombinedOutput()
		if err != nil {
			first := strings.SplitN(strings.TrimSpace(string(out)), "\n", 2)[0]
			fails = append(fails, fmt.Sprintf("path list %q: child process failed (%v): %s", k, err, first))
		}
	}
	return fails
}

func main() {
	if len(os.Args) < 3 {
		fmt.Fprintln(os.Stderr, "usage: hashprobe search C04|C18 | child <case>")
		os.Exit(2)
	}
	if os.Args[1] == "child" {
		c18child(os.Args[2])
		return
	}
	var fails []string
	if os.Args[2] == "C04" {
		fails = c04()
	} else {
		fails = c18()
	}
	fmt.Printf("SEARCH prop=%s failures=%d\n", os.Args[2], len(fails))
	for _, f := range fails {
		fmt.Println("FAILING-CASE", f)
	}
	if len(fails) > 0 {
		os.Exit(1)
	}
}
