// histprobe: property-level oracle for the cache/run properties (C01, C02, C14, C09, C03)
// against the real file.SpokFile.Run, over bounded histories. Used as witness finder / replay
// after an obligation has failed; never counted as proof.
package main

import (
	"fmt"
	"os"
	"path/filepath"
	"runtime"
	"sort"
	"strconv"
	"strings"
	"sync"

	"github.com/FollowTheProcess/spok/file"
	"github.com/FollowTheProcess/spok/iostream"
	"github.com/FollowTheProcess/spok/parser"
	"github.com/FollowTheProcess/spok/shell"
)

type nopLogger struct{}

func (nopLogger) Sync() error                  { return nil }
func (nopLogger) Debug(string, ...interface{}) {}

type recRunner struct {
	failing map[string]bool
	trace   []string // task names in execution order (one entry per command)
	effect  func(task string) // side effect of a task's command on the project files (generator tasks)
}

func (r *recRunner) Run(cmd string, _ iostream.IOStream, task string, _ []string) (shell.Result, error) {
	r.trace = append(r.trace, task)
	if r.effect != nil && !r.failing[task] {
		r.effect(task)
	}
	st := 0
	if r.failing[task] {
		st = 1
	}
	return shell.Result{Cmd: cmd, Status: st}, nil
}

type program struct {
	name  string
	text  string
	tasks []string
	deps  map[string][]string // task -> files (relative) or glob patterns it reads
}

var programs = []program{
	{"two-file-tasks", "task A(\"a.txt\") {\n echo a\n}\ntask B(\"b.txt\") {\n echo b\n}\n", []string{"A", "B"}, map[string][]string{"A": {"a.txt"}, "B": {"b.txt"}}},
	{"file-and-nodeps", "task A(\"a.txt\") {\n echo a\n}\ntask B() {\n echo b\n}\n", []string{"A", "B"}, map[string][]string{"A": {"a.txt"}, "B": {}}},
	{"glob-and-file", "task A(\"*.txt\") {\n echo a\n}\ntask B(\"b.txt\") {\n echo b\n}\n", []string{"A", "B"}, map[string][]string{"A": {"*.txt"}, "B": {"b.txt"}}},
	{"task-dep", "task A(\"a.txt\") {\n echo a\n}\ntask B(A, \"b.txt\") {\n echo b\n}\n", []string{"A", "B"}, map[string][]string{"A": {"a.txt"}, "B": {"b.txt"}}},
	// A is a generator: its command rewrites b.txt from a.txt; B depends on A and on b.txt
	{"generator", "task A(\"a.txt\") {\n gen\n}\ntask B(A, \"b.txt\") {\n echo b\n}\n", []string{"A", "B"}, map[string][]string{"A": {"a.txt"}, "B": {"b.txt"}}},
	{"shared-file", "task A(\"a.txt\") {\n echo a\n}\ntask B(\"a.txt\") {\n echo b\n}\n", []string{"A", "B"}, map[string][]string{"A": {"a.txt"}, "B": {"a.txt"}}},
}

var smallOps = []string{"edit:a.txt", "revert:a.txt", "run:A", "run:A,B", "force:A", "fail:A", "rmcache"}

var ops = []string{"edit:a.txt", "revert:a.txt", "edit:b.txt", "run:A", "run:B", "run:A,B", "force:A", "force:A,B", "fail:A", "unfail:A", "rmcache", "add:c.txt", "del:c.txt"}

type world struct {
	dir         string
	prog        program
	runner      *recRunner
	failedSince map[string]bool
	lastOK      map[string]string // task -> snapshot of inputs at its last successful completion ("" = never / cache removed since)
	version     map[string]int
}

func (w *world) snapshot(task string) string {
	var parts []string
	for _, d := range w.prog.deps[task] {
		ms := []string{filepath.Join(w.dir, d)}
		if strings.Contains(d, "*") {
			ms, _ = filepath.Glob(filepath.Join(w.dir, d))
			sort.Strings(ms)
		}
		for _, m := range ms {
			b, err := os.ReadFile(m)
			if err != nil {
				parts = append(parts, m+"=<missing>")
			} else {
				parts = append(parts, m+"="+string(b))
			}
		}
	}
	return strings.Join(parts, "|")
}

func (w *world) hasFileDeps(task string) bool { return strings.Contains(w.snapshot(task), "=") }

func closure(p program, req []string) []string {
	set := map[string]bool{}
	for _, r := range req {
		set[r] = true
		if (p.name == "task-dep" || p.name == "generator") && r == "B" {
			set["A"] = true
		}
	}
	var out []string
	for k := range set {
		out = append(out, k)
	}
	sort.Strings(out)
	return out
}

// apply one op; returns a violation message or "".
func (w *world) apply(op string, props map[string]bool) string {
	kind, arg, _ := strings.Cut(op, ":")
	switch kind {
	case "edit":
		w.version[arg]++
		os.WriteFile(filepath.Join(w.dir, arg), []byte(fmt.Sprintf("v%d", w.version[arg])), 0o644)
	case "revert":
		if w.version[arg] > 0 {
			w.version[arg]--
		}
		os.WriteFile(filepath.Join(w.dir, arg), []byte(fmt.Sprintf("v%d", w.version[arg])), 0o644)
	case "add":
		os.WriteFile(filepath.Join(w.dir, arg), []byte("new"), 0o644)
	case "del":
		os.Remove(filepath.Join(w.dir, arg))
	case "fail":
		w.runner.failing[arg] = true
	case "unfail":
		delete(w.runner.failing, arg)
	case "rmcache":
		os.RemoveAll(filepath.Join(w.dir, ".spok"))
		for k := range w.lastOK {
			w.lastOK[k] = ""
		}
	case "run", "force":
		force := kind == "force"
		req := strings.Split(arg, ",")
		tree, err := parser.New(w.prog.text).Parse()
		if err != nil {
			return "spokfile does not parse: " + err.Error()
		}
		sf, err := file.New(tree, w.dir, nopLogger{})
		if err != nil {
			return "file.New: " + err.Error()
		}
		w.runner.trace = nil
		pre := map[string]string{}
		for _, t := range w.prog.tasks {
			pre[t] = w.snapshot(t)
		}
		// inputs of a task at the moment spok decides about it: for the task behind a generator that
		// is the state right after the generator's command ran
		w.runner.effect = nil
		if w.prog.name == "generator" {
			w.runner.effect = func(task string) {
				if task == "A" {
					b, _ := os.ReadFile(filepath.Join(w.dir, "a.txt"))
					os.WriteFile(filepath.Join(w.dir, "b.txt"), append([]byte("gen:"), b...), 0o644)
					pre["B"] = w.snapshot("B")
				}
			}
		}
		results, err := sf.Run(iostream.Null(), w.runner, force, req...)
		if err != nil {
			return "" // an explicit error is always acceptable for C01/C02 (not for C09, checked elsewhere)
		}
		executed := map[string]int{}
		for _, t := range w.runner.trace {
			executed[t]++
		}
		want := closure(w.prog, req)
		got := map[string]bool{}
		for _, r := range results {
			got[r.Task] = true
			if r.Skipped {
				if props["C09"] && w.failedSince[r.Task] {
					return fmt.Sprintf("C09: task %s reported skipped although its last execution failed", r.Task)
				}
				if props["C01"] && !w.failedSince[r.Task] && (w.lastOK[r.Task] == "" || w.lastOK[r.Task] != pre[r.Task]) {
					return fmt.Sprintf("C01: task %s reported skipped but its inputs %q differ from those of its last success %q", r.Task, pre[r.Task], w.lastOK[r.Task])
				}
				if props["C14"] && force {
					return fmt.Sprintf("C14: task %s skipped under --force", r.Task)
				}
				if executed[r.Task] > 0 {
					return fmt.Sprintf("C02: task %s reported skipped but its commands were executed", r.Task)
				}
			} else {
				if props["C02"] && !force && w.hasFileDeps(r.Task) && w.lastOK[r.Task] != "" && w.lastOK[r.Task] == pre[r.Task] {
					return fmt.Sprintf("C02: task %s ran although its inputs %q are unchanged since its last success", r.Task, pre[r.Task])
				}
				if executed[r.Task] != 1 {
					return fmt.Sprintf("C03: task %s executed %d times in one run", r.Task, executed[r.Task])
				}
				if !w.runner.failing[r.Task] {
					w.lastOK[r.Task] = pre[r.Task]
					delete(w.failedSince, r.Task)
				} else {
					// C09: a task whose last execution failed is not up to date
					w.lastOK[r.Task] = ""
					w.failedSince[r.Task] = true
				}
			}
		}
		if props["C03"] {
			for _, t := range want {
				if !got[t] {
					return fmt.Sprintf("C03: task %s was requested or depended upon but left out", t)
				}
			}
		}
	}
	return ""
}

func runHistory(p program, hist []string, props map[string]bool) string {
	dir, err := os.MkdirTemp("", "histprobe-")
	if err != nil {
		return "tempdir: " + err.Error()
	}
	defer os.RemoveAll(dir)
	dir, _ = filepath.EvalSymlinks(dir)
	w := &world{dir: dir, prog: p, runner: &recRunner{failing: map[string]bool{}}, lastOK: map[string]string{}, failedSince: map[string]bool{}, version: map[string]int{}}
	os.WriteFile(filepath.Join(dir, "a.txt"), []byte("v0"), 0o644)
	os.WriteFile(filepath.Join(dir, "b.txt"), []byte("v0"), 0o644)
	for i, op := range hist {
		if msg := w.apply(op, props); msg != "" {
			return fmt.Sprintf("step %d (%s): %s", i+1, op, msg)
		}
	}
	return ""
}

func main() {
	if len(os.Args) < 3 {
		fmt.Fprintln(os.Stderr, "usage: histprobe search <props,comma> <depth> | replay <props> <program> <op> <op> ...")
		os.Exit(2)
	}
	props := map[string]bool{}
	for _, p := range strings.Split(os.Args[2], ",") {
		props[p] = true
	}
	switch os.Args[1] {
	case "env":
		envProbe()
		return
	case "graph":
		n, _ := strconv.Atoi(os.Args[3])
		graphSearch(n, os.Args[4:])
		return
	case "replay":
		var prog program
		for _, p := range programs {
			if p.name == os.Args[3] {
				prog = p
			}
		}
		if msg := runHistory(prog, os.Args[4:], props); msg != "" {
			fmt.Printf("FAIL program=%s history=%v: %s\n", prog.name, os.Args[4:], msg)
			os.Exit(1)
		}
		fmt.Printf("ok program=%s history=%v\n", prog.name, os.Args[4:])
	case "search":
		depth, _ := strconv.Atoi(os.Args[3])
		if len(os.Args) > 4 && os.Args[4] == "small" {
			ops = smallOps
		}
		type job struct {
			p    program
			hist []string
		}
		jobs := make(chan job, 256)
		var mu sync.Mutex
		var fails []string
		total := 0
		var wg sync.WaitGroup
		for i := 0; i < runtime.NumCPU(); i++ {
			wg.Add(1)
			go func() {
				defer wg.Done()
				for j := range jobs {
					msg := runHistory(j.p, j.hist, props)
					mu.Lock()
					total++
					if msg != "" && len(fails) < 3 {
						fails = append(fails, fmt.Sprintf("program=%s history=%s :: %s", j.p.name, strings.Join(j.hist, " "), msg))
					}
					mu.Unlock()
				}
			}()
		}
		var gen func(p program, cur []string, d int)
		gen = func(p program, cur []string, d int) {
			if d == 0 {
				// only histories ending in a run are interesting
				if len(cur) > 0 && (strings.HasPrefix(cur[len(cur)-1], "run") || strings.HasPrefix(cur[len(cur)-1], "force")) {
					jobs <- job{p, append([]string{}, cur...)}
				}
				return
			}
			for _, op := range ops {
				gen(p, append(cur, op), d-1)
			}
		}
		for _, p := range programs {
			for d := 1; d <= depth; d++ {
				gen(p, nil, d)
			}
		}
		close(jobs)
		wg.Wait()
		fmt.Printf("SEARCH props=%s depth=%d histories=%d failures=%d\n", os.Args[2], depth, total, len(fails))
		for _, f := range fails {
			fmt.Println("FAILING-HISTORY", f)
		}
		if len(fails) > 0 {
			os.Exit(1)
		}
	}
}

// ---- C03: all dependency graphs over n tasks (every subset of directed edges incl. self loops,
// plus one undefined dependency) x request lists; repeated so that map iteration order varies.

func graphOracle(n int, edges [][2]int, undefinedDep int, req []int, reps int) string {
	var b strings.Builder
	names := []string{"ta", "tb", "tc", "td", "te"}
	deps := map[int][]int{}
	for _, e := range edges {
		deps[e[1]] = append(deps[e[1]], e[0]) // e[0] must run before e[1]
	}
	for i := 0; i < n; i++ {
		var ds []string
		for _, d := range deps[i] {
			ds = append(ds, names[d])
		}
		if undefinedDep == i {
			ds = append(ds, "nosuch")
		}
		fmt.Fprintf(&b, "task %s(%s) {\n echo %s\n}\n", names[i], strings.Join(ds, ", "), names[i])
	}
	text := b.String()
	// closure + cyclicity of the requested closure
	in := map[int]bool{}
	var stack []int
	for _, r := range req {
		if !in[r] {
			in[r] = true
			stack = append(stack, r)
		}
	}
	undefinedHit := false
	for len(stack) > 0 {
		v := stack[len(stack)-1]
		stack = stack[:len(stack)-1]
		if undefinedDep == v {
			undefinedHit = true
		}
		for _, d := range deps[v] {
			if !in[d] {
				in[d] = true
				stack = append(stack, d)
			}
		}
	}
	// cycle detection inside closure
	state := map[int]int{}
	cyclic := false
	var dfs func(v int)
	dfs = func(v int) {
		state[v] = 1
		for _, d := range deps[v] {
			if !in[d] {
				continue
			}
			if state[d] == 1 {
				cyclic = true
			} else if state[d] == 0 {
				dfs(d)
			}
		}
		state[v] = 2
	}
	for v := range in {
		if state[v] == 0 {
			dfs(v)
		}
	}
	for rep := 0; rep < reps; rep++ {
		dir, _ := os.MkdirTemp("", "graphprobe-")
		tree, err := parser.New(text).Parse()
		if err != nil {
			os.RemoveAll(dir)
			return "spokfile does not parse: " + err.Error()
		}
		sf, err := file.New(tree, dir, nopLogger{})
		if err != nil {
			os.RemoveAll(dir)
			return "file.New: " + err.Error()
		}
		rr := &recRunner{failing: map[string]bool{}}
		var rq []string
		for _, r := range req {
			rq = append(rq, names[r])
		}
		results, err := sf.Run(iostream.Null(), rr, false, rq...)
		os.RemoveAll(dir)
		if undefinedHit || cyclic {
			if err == nil {
				return fmt.Sprintf("C03: closure is %s but Run returned no error (ran %v)", map[bool]string{true: "cyclic", false: "referring to an undefined task"}[cyclic], rr.trace)
			}
			if len(rr.trace) != 0 {
				return fmt.Sprintf("C03: error reported but tasks ran: %v", rr.trace)
			}
			continue
		}
		if err != nil {
			return "C03: unexpected error: " + err.Error()
		}
		pos := map[string]int{}
		for i, t := range rr.trace {
			if _, dup := pos[t]; dup {
				return fmt.Sprintf("C03: task %s ran twice: %v", t, rr.trace)
			}
			pos[t] = i
		}
		if len(results) != len(rr.trace) {
			return fmt.Sprintf("C03: %d results but %d executions", len(results), len(rr.trace))
		}
		for v := range in {
			if _, ok := pos[names[v]]; !ok {
				return fmt.Sprintf("C03: task %s is requested or depended upon but did not run: %v", names[v], rr.trace)
			}
			for _, d := range deps[v] {
				if pos[names[d]] > pos[names[v]] {
					return fmt.Sprintf("C03: task %s ran before its dependency %s: %v", names[v], names[d], rr.trace)
				}
			}
		}
		if len(pos) != len(in) {
			return fmt.Sprintf("C03: tasks outside the requested closure ran: %v", rr.trace)
		}
	}
	return ""
}

func graphSearch(n int, extra []string) {
	reps := 3
	var pairs [][2]int
	for a := 0; a < n; a++ {
		for b := 0; b < n; b++ {
			pairs = append(pairs, [2]int{a, b})
		}
	}
	type job struct {
		edges [][2]int
		undef int
		req   []int
	}
	jobs := make(chan job, 256)
	var mu sync.Mutex
	var fails []string
	total := 0
	var wg sync.WaitGroup
	for i := 0; i < runtime.NumCPU(); i++ {
		wg.Add(1)
		go func() {
			defer wg.Done()
			for j := range jobs {
				msg := graphOracle(n, j.edges, j.undef, j.req, reps)
				mu.Lock()
				total++
				if msg != "" && len(fails) < 3 {
					fails = append(fails, fmt.Sprintf("n=%d edges=%v undefinedDepOf=%d request=%v :: %s", n, j.edges, j.undef, j.req, msg))
				}
				mu.Unlock()
			}
		}()
	}
	var reqs [][]int
	for m := 1; m < 1<<n; m++ {
		var r []int
		for v := 0; v < n; v++ {
			if m&(1<<v) != 0 {
				r = append(r, v)
			}
		}
		reqs = append(reqs, r)
	}
	for m := 0; m < 1<<len(pairs); m++ {
		var es [][2]int
		for k, p := range pairs {
			if m&(1<<k) != 0 {
				es = append(es, p)
			}
		}
		for _, r := range reqs {
			jobs <- job{es, -1, r}
		}
		if m%7 == 0 {
			jobs <- job{es, m % n, reqs[len(reqs)-1]}
		}
	}
	close(jobs)
	wg.Wait()
	fmt.Printf("SEARCH props=C03 graphs-over=%d-tasks cases=%d failures=%d\n", n, total, len(fails))
	for _, f := range fails {
		fmt.Println("FAILING-HISTORY", f)
	}
	if len(fails) > 0 {
		os.Exit(1)
	}
}

// ---- C13: a spokfile variable reaches commands by template and by environment, whatever the ambient value
func envProbe() {
	dir, _ := os.MkdirTemp("", "envprobe-")
	defer os.RemoveAll(dir)
	os.Setenv("SPOKVAR", "ambient")
	os.Setenv("OTHERVAR", "ambient2")
	text := "SPOKVAR := \"from spokfile\"\nUNSET := \"u\"\ntask t() {\n echo $SPOKVAR-{{.SPOKVAR}}-$UNSET-$OTHERVAR\n}\n"
	tree, err := parser.New(text).Parse()
	if err != nil {
		fmt.Println("FAILING-CASE parse:", err)
		os.Exit(1)
	}
	sf, err := file.New(tree, dir, nopLogger{})
	if err != nil {
		fmt.Println("FAILING-CASE file.New:", err)
		os.Exit(1)
	}
	res, err := sf.Run(iostream.Null(), shell.NewIntegratedRunner(), true, "t")
	if err != nil || len(res) != 1 || len(res[0].CommandResults) != 1 {
		fmt.Println("FAILING-CASE run:", err, res)
		os.Exit(1)
	}
	got := strings.TrimSpace(res[0].CommandResults[0].Stdout)
	want := "from spokfile-from spokfile-u-ambient2"
	fmt.Printf("SEARCH prop=C13 cases=1\n")
	if got != want {
		fmt.Printf("FAILING-CASE spokfile `%s` with ambient SPOKVAR=ambient: command printed %q, want %q\n", strings.ReplaceAll(text, "\n", "\\n"), got, want)
		os.Exit(1)
	}
}
