#!/bin/bash
# mk_worktree.sh <name>: scratch worktree of /repo HEAD without the verif hook files, at /tmp/wt-<name>
set -e
n=$1
cd /repo
git worktree remove --force /tmp/wt2-$n 2>/dev/null || true
git branch -D scratch2-$n 2>/dev/null || true
git worktree add -q -b scratch2-$n /tmp/wt2-$n HEAD
cd /tmp/wt2-$n
git ls-files "*zz_contracts_verif.go" | xargs -r git rm -q --cached
find . -name zz_contracts_verif.go -delete
git commit -qm "scratch: without verif hook files" || true
echo /tmp/wt2-$n
