#!/bin/bash
# mk_worktree.sh <name>: scratch worktree of /repo HEAD without the verif hook files, at /tmp/wt-<name>
set -e
n=$1
cd /repo
git worktree remove --force /tmp/wt-$n 2>/dev/null || true
git branch -D scratch-$n 2>/dev/null || true
git worktree add -q -b scratch-$n /tmp/wt-$n HEAD
cd /tmp/wt-$n
git rm -q --cached */zz_contracts_verif.go 2>/dev/null || true
rm -f */zz_contracts_verif.go */*/zz_contracts_verif.go
git commit -qm "scratch: without verif hook files" || true
echo /tmp/wt-$n
