#!/bin/bash
# usage: scratch_mut.sh file 'old' 'new' [verify args] -- applies a textual mutation, runs spokvc verify, restores the file
f=$1; old=$2; new=$3; shift 3
cp "$f" /tmp/scratch_mut.bak
python3 - "$f" "$old" "$new" <<'PY'
import sys
f,old,new=sys.argv[1:4]
s=open(f).read()
assert old in s, "pattern not found"
open(f,'w').write(s.replace(old,new,1))
PY
cd /verif/spokvc && ../bin/spokvc verify "$@" 2>&1 | grep -v WARNING | cut -c1-220 | head -14
cp /tmp/scratch_mut.bak "$f"
cd /repo && git status --short
