#!/bin/bash
# usage: scratch_mut.sh file 'python-replace-old' 'new' [verify args]
f=$1; old=$2; new=$3; shift 3
python3 - "$f" "$old" "$new" <<'PY'
import sys
f,old,new=sys.argv[1:4]
s=open(f).read()
assert old in s, "pattern not found"
open(f,'w').write(s.replace(old,new,1))
PY
cd /verif/spokvc && ../bin/spokvc verify "$@" 2>&1 | grep -v WARNING | cut -c1-220 | head -14
cd /repo && git checkout -- "*.go" ":!*zz_contracts_verif.go" && git status --short
