#!/bin/bash
# confirm2.sh <PROP> <k> [outname]: independently confirm a sub-agent's seeded change (from /tmp/seed-out/<PROP>/m<k>)
# in the scratch worktree /tmp/wt-<PROP>; keep it under /verif/seeded/<outname> (default <PROP>-m<k>).
export GOFLAGS=-mod=mod GOPROXY=off GOSUMDB=off GOTOOLCHAIN=local
P=$1; k=$2; src=${SEEDSRC:-/tmp/seed-out}/$P/m$k; wt=${SEEDWT:-/tmp/wt}-$P; out=/verif/seeded/${3:-$P-m$k}
[ -d "$wt" ] || { echo "no worktree $wt"; exit 2; }
cd $wt && git checkout -q -- . && git clean -fdq
d=$(python3 -c "import json;print(json.load(open('$src/meta.json'))['demo_dir'].strip('/'))")
place="$d/seeded_${P}_m${k}_demo_test.go"
run() { "$@" >/tmp/confirm.out 2>&1; }
git apply $src/patch.diff || { echo "patch does not apply"; exit 2; }
run go build ./... ; b=$?
run go test -vet=off -count=1 -timeout 300s ./... ; t=$?
cp $src/demo_test.go $wt/$place
run go test -vet=off -count=1 -timeout 120s ./$d/ ; dm=$?
git checkout -q -- .
run go test -vet=off -count=1 -timeout 120s ./$d/ ; do_=$?
git clean -fdq
echo "$P m$k: build=$b suite=$t demo_with_change=$dm demo_on_original=$do_"
if [ $b -eq 0 ] && [ $t -eq 0 ] && [ $dm -ne 0 ] && [ $do_ -eq 0 ]; then
  mkdir -p $out && cp $src/patch.diff $src/demo_test.go $out/
  python3 - "$src/meta.json" "$out/meta.json" "$place" "$wt" <<'PY'
import json,sys
m=json.load(open(sys.argv[1]))
m["demo_placement"]=sys.argv[3]
m["confirmed_by_me"]={"where":"scratch worktree "+sys.argv[4],"build_with_change":"ok","suite_with_change":"pass","demo_with_change":"FAIL (as required)","demo_on_original":"pass"}
json.dump(m,open(sys.argv[2],"w"),indent=1)
PY
  echo "kept: $out"
else
  echo "NOT kept"; tail -5 /tmp/confirm.out
fi
