#!/bin/bash
# benigntest.sh [name-glob]: must-pass corpus. For every behaviour-preserving change under /verif/benign/<name>/
# apply patch.diff to /repo's working tree, run the quick checks whose functions the patch touches
# (meta.json "checks"), record whether an alarm was raised (a false alarm), and undo the change.
# Nothing is ever committed to /repo. Writes /verif/benign/RESULTS.md.
cd /verif
pat=${1:-*}
[ -z "$(git -C /repo status --porcelain)" ] || { echo "/repo working tree is not clean: refusing"; exit 2; }
res=/verif/benign/RESULTS.md
tmp=$(mktemp)
for d in benign/$pat/; do
  n=$(basename $d)
  [ -f $d/patch.diff ] || continue
  props=$(python3 -c "
import json;m=json.load(open('$d/meta.json'));print(' '.join(m.get('checks',[])))" 2>/dev/null)
  git -C /repo apply $PWD/$d/patch.diff || { echo "| $n | - | patch does not apply | |" >> $tmp; continue; }
  for p in $props; do
    out=$(SPOKVC_SELFTEST=1 ./check $p quick 2>&1); rc=$?
    v=$(echo "$out" | grep -c '^VIOLATION')
    first=$(echo "$out" | grep -m1 '^VIOLATION' | sed 's/.*replay=[^ ]*\/\([^ \/]*\)\.json.*/\1/')
    if [ $rc -eq 0 ] && [ $v -eq 0 ]; then verdict="quiet"; else verdict="FALSE-ALARM ($v)"; fi
    echo "| $n | $p | $verdict | $first |" >> $tmp
    echo "$n $p $verdict $first"
  done
  git -C /repo checkout -- . ; git -C /repo clean -fdq
done
if [ -f $res ]; then
  grep '^| b' $res | while IFS= read -r row; do
    n=$(echo "$row" | cut -d'|' -f2 | tr -d ' '); p=$(echo "$row" | cut -d'|' -f3 | tr -d ' ')
    grep -q "^| $n | $p |" $tmp || echo "$row" >> $tmp
  done
fi
{ echo "# Behaviour-preserving changes vs checks (written by /verif/benigntest.sh)"; echo; echo "| change | check | result | first failed obligation |"; echo "|---|---|---|---|"; sort -u $tmp; } > $res
rm -f $tmp
grep -c FALSE-ALARM $res | sed 's/^/false alarms: /'
