package main

// Contract files: //@ lines in /repo/<pkg>/zz_contracts_verif.go and plain
// lines in /verif/contracts/**/*.spec.

import (
	"fmt"
	"os"
	"path/filepath"
	"regexp"
	"sort"
	"strconv"
	"strings"
)

type Clause struct {
	Label string   // optional name
	Props []string // properties this clause serves ("" = all that list the function)
	E     Expr
	Src   string
	File  string
	Line  int
}

type UseHint struct {
	Lemma string
	Args  []Expr
	Src   string
	File  string
	Line  int
}

type LoopSpec struct {
	Inv      []Clause
	Dec      []Expr
	DecSrc   string
	Uses     []UseHint
	File     string
	Line     int
	Modifies []string
}

type AssertSpec struct {
	// assert / use anchored at the n-th call of a callee inside the function body:  "at call foo#2: assert E"
	Callee string
	Nth    int
	After  bool
	Assert []Clause
	Assume []Clause // never allowed in verified functions; rejected by loader
	Uses   []UseHint
	Ghost  []GhostUpdate
	Block  []Clause
	bound  bool
	File   string
	Line   int
}

type FuncSpec struct {
	Key       string // canonical function key
	Pkg       string
	Requires  []Clause
	Ensures   []Clause
	Modifies  []string
	HasMod    bool
	Uses      []UseHint
	Loops     map[int]*LoopSpec
	Anchors   []*AssertSpec
	Assumed   bool   // contract of a dependency/std/interface: body not verified
	Trusted   string // reason why the body is not verified although in /repo
	Pure      bool
	File      string
	Line      int
	Params    []string // for assumed specs that rename params (optional)
	Ghost     []Binder // ghost parameters (behaviours / lemma scripts)
	FuncType  string   // non-empty: this is a contract for a function *type* (dynamic calls)
	Implement string   // "implements <functype>"
	NoPanic   bool
	CrashInv  []Clause
	CrashEns  []Clause // what holds if the process dies inside this function (durable state only)
	Terminates bool
	EntryGhost []GhostUpdate
	Props     []string // default property tags for every clause
	bound     bool
	Text      string // the source text of every clause of this contract (rename recovery, alias.go)
}

type SpecFun struct {
	Name       string
	SMTName    string
	Params     []Binder
	ParamSorts []Sort
	Ret        Sort
	RetType    string
	Builtin    bool
}

type SpecPred struct {
	Name   string
	Params []Binder
	Body   Expr
	Src    string
}

type SpecAxiom struct {
	Name string
	E    Expr
	Src  string
	File string
}

type SpecLemma struct {
	Name     string
	Params   []Binder
	Requires []Expr
	Ensures  []Expr
	Assumed  bool
	Induct   string // proved by induction on this int parameter (n = 0, then n -> n+1), "" otherwise
	Uses     []UseHint // other lemmas instantiated inside the proof of an inductive lemma
	Src      string
	File     string
	Line     int
}

type ghostField struct {
	TypeKey string // "lexer.Lexer"
	Name    string
	Type    string
}

var directiveRe = regexp.MustCompile(`^(func|iface|functype|requires|ensures|modifies|use|loop|invariant|decreases|pred|fun|axiom|lemma|ghost|assumed|trusted|pure|at|implements|crashinv|crashensures|props|const|terminates|nopanic)\b`)

type rawLine struct {
	text string
	file string
	line int
}

func readSpecLines(path string) ([]rawLine, error) {
	data, err := os.ReadFile(path)
	if err != nil {
		return nil, err
	}
	isGo := strings.HasSuffix(path, ".go")
	var out []rawLine
	for i, l := range strings.Split(string(data), "\n") {
		if isGo {
			t := strings.TrimLeft(l, " \t")
			if !strings.HasPrefix(t, "//@") {
				continue
			}
			l = t[3:]
		} else {
			if idx := strings.Index(l, "##"); idx >= 0 {
				l = l[:idx]
			}
		}
		if strings.TrimSpace(l) == "" {
			continue
		}
		out = append(out, rawLine{text: l, file: path, line: i + 1})
	}
	// join continuation lines
	var joined []rawLine
	for _, r := range out {
		t := strings.TrimSpace(r.text)
		if directiveRe.MatchString(t) || len(joined) == 0 {
			joined = append(joined, rawLine{text: t, file: r.file, line: r.line})
		} else {
			joined[len(joined)-1].text += " " + t
		}
	}
	return joined, nil
}

var labelRe = regexp.MustCompile(`^\[([A-Za-z0-9_,:\- ]+)\]\s*`)

func parseClause(pkg, text, file string, line int) (Clause, error) {
	c := Clause{Src: text, File: file, Line: line}
	if m := labelRe.FindStringSubmatch(text); m != nil {
		text = text[len(m[0]):]
		for _, part := range strings.Split(m[1], ",") {
			part = strings.TrimSpace(part)
			if regexp.MustCompile(`^C[0-9]+$`).MatchString(part) {
				c.Props = append(c.Props, part)
			} else if part != "" {
				c.Label = part
			}
		}
	}
	e, err := ParseSpecExpr(text)
	if err != nil {
		return c, fmt.Errorf("%s:%d: %v", file, line, err)
	}
	c.E = e
	return c, nil
}

func parseUse(text, file string, line int) (UseHint, error) {
	e, err := ParseSpecExpr(text)
	if err != nil {
		return UseHint{}, fmt.Errorf("%s:%d: %v", file, line, err)
	}
	c, ok := e.(ECall)
	if !ok {
		return UseHint{}, fmt.Errorf("%s:%d: use expects lemma(args)", file, line)
	}
	return UseHint{Lemma: c.Fn, Args: c.Args, Src: text, File: file, Line: line}, nil
}

func parseBinders(s string) ([]Binder, error) {
	s = strings.TrimSpace(s)
	if s == "" {
		return nil, nil
	}
	var bs []Binder
	for _, part := range splitTop(s, ',') {
		fs := strings.Fields(strings.TrimSpace(part))
		switch len(fs) {
		case 1:
			bs = append(bs, Binder{Name: fs[0]})
		case 2:
			bs = append(bs, Binder{Name: fs[0], Type: fs[1]})
		default:
			return nil, fmt.Errorf("bad binder %q", part)
		}
	}
	for i := len(bs) - 2; i >= 0; i-- {
		if bs[i].Type == "" {
			bs[i].Type = bs[i+1].Type
		}
	}
	for i := range bs {
		if bs[i].Type == "" {
			bs[i].Type = "int"
		}
	}
	return bs, nil
}

func splitTop(s string, sep byte) []string {
	var out []string
	depth := 0
	last := 0
	for i := 0; i < len(s); i++ {
		switch s[i] {
		case '(', '[':
			depth++
		case ')', ']':
			depth--
		default:
			if s[i] == sep && depth == 0 {
				out = append(out, s[last:i])
				last = i + 1
			}
		}
	}
	out = append(out, s[last:])
	return out
}

// loadSpecFile parses one contract file. pkg is the short package name used
// to qualify "func (*T).m" keys ("" for assumed spec files, which use full keys).
func (w *World) loadSpecFile(path, pkg string) error {
	lines, err := readSpecLines(path)
	if err != nil {
		return err
	}
	var cur *FuncSpec
	var fileProps []string
	fileAssumed := false
	for _, r := range lines {
		t := r.text
		kw := directiveRe.FindString(t)
		rest := strings.TrimSpace(t[len(kw):])
		fail := func(f string, a ...interface{}) error {
			return fmt.Errorf("%s:%d: %s", r.file, r.line, fmt.Sprintf(f, a...))
		}
		switch kw {
		case "requires", "ensures", "modifies", "use", "loop", "invariant", "decreases", "at", "crashinv", "crashensures":
			if cur != nil {
				cur.Text += t + "\n"
			}
		}
		switch kw {
		case "func", "iface", "functype":
			key := rest
			if pkg != "" {
				key = pkg + "." + key
			}
			var pnames []string
			if kw != "func" {
				if i := strings.Index(key, "("); i >= 0 && strings.HasSuffix(key, ")") {
					for _, n := range strings.Split(key[i+1:len(key)-1], ",") {
						pnames = append(pnames, strings.TrimSpace(n))
					}
					key = key[:i]
				}
			}
			cur = &FuncSpec{Key: key, Pkg: pkg, Loops: map[int]*LoopSpec{}, File: r.file, Line: r.line, Assumed: fileAssumed, Props: fileProps, Params: pnames}
			switch kw {
			case "iface":
				cur.Assumed = true
				if _, dup := w.ifaceSpecs[key]; dup {
					return fail("duplicate iface contract %s", key)
				}
				w.ifaceSpecs[key] = cur
			case "functype":
				cur.FuncType = key
				w.funcSpecs["functype:"+key] = cur
			default:
				if _, dup := w.funcSpecs[key]; dup {
					return fail("duplicate contract for %s", key)
				}
				w.funcSpecs[key] = cur
			}
		case "assumed":
			if cur == nil {
				fileAssumed = true
			} else {
				cur.Assumed = true
			}
		case "props":
			ps := strings.Fields(strings.ReplaceAll(rest, ",", " "))
			if cur == nil {
				fileProps = ps
			} else {
				cur.Props = ps
			}
		case "trusted":
			if cur == nil {
				return fail("trusted outside func")
			}
			cur.Trusted = rest
			if cur.Trusted == "" {
				cur.Trusted = "unspecified"
			}
		case "pure":
			if cur == nil {
				return fail("pure outside func")
			}
			cur.Pure = true
		case "terminates":
			cur.Terminates = true
		case "nopanic":
			cur.NoPanic = true
		case "implements":
			if cur == nil {
				return fail("implements outside func")
			}
			cur.Implement = rest
		case "requires", "ensures", "crashinv", "crashensures":
			if cur == nil {
				return fail("%s outside func", kw)
			}
			c, err := parseClause(pkg, rest, r.file, r.line)
			if err != nil {
				return err
			}
			switch kw {
			case "requires":
				cur.Requires = append(cur.Requires, c)
			case "ensures":
				cur.Ensures = append(cur.Ensures, c)
			case "crashinv":
				cur.CrashInv = append(cur.CrashInv, c)
			case "crashensures":
				cur.CrashEns = append(cur.CrashEns, c)
			}
		case "modifies":
			if cur == nil {
				return fail("modifies outside func")
			}
			cur.HasMod = true
			for _, m := range splitTop(rest, ',') {
				m = strings.TrimSpace(m)
				if m != "" && m != "nothing" {
					cur.Modifies = append(cur.Modifies, m)
				}
			}
		case "use":
			if cur == nil {
				return fail("use outside func")
			}
			u, err := parseUse(rest, r.file, r.line)
			if err != nil {
				return err
			}
			cur.Uses = append(cur.Uses, u)
		case "loop":
			if cur == nil {
				return fail("loop outside func")
			}
			// loop N: invariant E | decreases E,.. | use L(..) | modifies ...
			idx := strings.Index(rest, ":")
			if idx < 0 {
				return fail("loop N: ...")
			}
			n, err := strconv.Atoi(strings.TrimSpace(rest[:idx]))
			if err != nil {
				return fail("bad loop ordinal")
			}
			body := strings.TrimSpace(rest[idx+1:])
			ls := cur.Loops[n]
			if ls == nil {
				ls = &LoopSpec{File: r.file, Line: r.line}
				cur.Loops[n] = ls
			}
			switch {
			case strings.HasPrefix(body, "invariant"):
				c, err := parseClause(pkg, strings.TrimSpace(body[len("invariant"):]), r.file, r.line)
				if err != nil {
					return err
				}
				ls.Inv = append(ls.Inv, c)
			case strings.HasPrefix(body, "decreases"):
				es, err := ParseSpecExprList(strings.TrimSpace(body[len("decreases"):]))
				if err != nil {
					return fail("%v", err)
				}
				ls.Dec = es
				ls.DecSrc = body
			case strings.HasPrefix(body, "use"):
				u, err := parseUse(strings.TrimSpace(body[3:]), r.file, r.line)
				if err != nil {
					return err
				}
				ls.Uses = append(ls.Uses, u)
			case strings.HasPrefix(body, "modifies"):
				for _, m := range splitTop(strings.TrimSpace(body[len("modifies"):]), ',') {
					ls.Modifies = append(ls.Modifies, strings.TrimSpace(m))
				}
			default:
				return fail("unknown loop clause %q", body)
			}
		case "at":
			if cur == nil {
				return fail("at outside func")
			}
			// at call NAME#N: (assert E | use L(..))   ; "after call NAME#N" via "at return NAME#N"
			idx := strings.Index(rest, ":")
			if idx < 0 {
				return fail("at call f#n: ...")
			}
			head := strings.Fields(rest[:idx])
			body := strings.TrimSpace(rest[idx+1:])
			if len(head) == 1 && head[0] == "entry" && strings.HasPrefix(body, "ghost") {
				gb := strings.TrimSpace(body[len("ghost"):])
				eq := strings.Index(gb, "=")
				if eq < 0 {
					return fail("ghost target = expr")
				}
				ge, err := ParseSpecExpr(gb[eq+1:])
				if err != nil {
					return fail("%v", err)
				}
				cur.EntryGhost = append(cur.EntryGhost, GhostUpdate{Target: strings.TrimSpace(gb[:eq]), Value: ge, Src: gb, File: r.file, Line: r.line})
				continue
			}
			if len(head) != 2 || (head[0] != "call" && head[0] != "return") {
				return fail("at (call|return) f#n: ...")
			}
			name := head[1]
			nth := 0
			if h := strings.Index(name, "#"); h >= 0 {
				nth, err = strconv.Atoi(name[h+1:])
				if err != nil {
					return fail("bad call ordinal")
				}
				name = name[:h]
			}
			a := &AssertSpec{Callee: name, Nth: nth, After: head[0] == "return", File: r.file, Line: r.line}
			switch {
			case strings.HasPrefix(body, "assert"):
				c, err := parseClause(pkg, strings.TrimSpace(body[len("assert"):]), r.file, r.line)
				if err != nil {
					return err
				}
				a.Assert = append(a.Assert, c)
			case strings.HasPrefix(body, "use"):
				u, err := parseUse(strings.TrimSpace(body[3:]), r.file, r.line)
				if err != nil {
					return err
				}
				a.Uses = append(a.Uses, u)
			case strings.HasPrefix(body, "blockif"):
				c, err := parseClause(pkg, strings.TrimSpace(body[len("blockif"):]), r.file, r.line)
				if err != nil {
					return err
				}
				a.Block = append(a.Block, c)
			case strings.HasPrefix(body, "ghost"):
				gb := strings.TrimSpace(body[len("ghost"):])
				eq := strings.Index(gb, "=")
				if eq < 0 {
					return fail("ghost target = expr")
				}
				ge, err := ParseSpecExpr(gb[eq+1:])
				if err != nil {
					return fail("%v", err)
				}
				a.Ghost = append(a.Ghost, GhostUpdate{Target: strings.TrimSpace(gb[:eq]), Value: ge, Src: gb, File: r.file, Line: r.line})
			default:
				return fail("unknown anchor clause %q", body)
			}
			cur.Anchors = append(cur.Anchors, a)
		case "pred":
			// pred Name(params) := body
			m := regexp.MustCompile(`^([A-Za-z_][A-Za-z0-9_]*)\((.*?)\)\s*:=\s*(.*)$`).FindStringSubmatch(rest)
			if m == nil {
				return fail("pred Name(params) := body")
			}
			bs, err := parseBinders(m[2])
			if err != nil {
				return fail("%v", err)
			}
			e, err := ParseSpecExpr(m[3])
			if err != nil {
				return fail("%v", err)
			}
			if _, dup := w.preds[m[1]]; dup {
				return fail("duplicate pred %s", m[1])
			}
			w.preds[m[1]] = &SpecPred{Name: m[1], Params: bs, Body: e, Src: rest}
			cur = nil
		case "fun":
			m := regexp.MustCompile(`^([A-Za-z_][A-Za-z0-9_]*)\((.*?)\)\s*(\S+)$`).FindStringSubmatch(rest)
			if m == nil {
				return fail("fun name(params) type")
			}
			bs, err := parseBinders(m[2])
			if err != nil {
				return fail("%v", err)
			}
			if _, dup := w.specFuns[m[1]]; dup {
				return fail("duplicate fun %s", m[1])
			}
			f := &SpecFun{Name: m[1], SMTName: "f_" + m[1], Params: bs, RetType: m[3]}
			w.specFuns[m[1]] = f
			w.specFunOrd = append(w.specFunOrd, m[1])
			cur = nil
		case "axiom":
			idx := strings.Index(rest, ":")
			if idx < 0 {
				return fail("axiom name: expr")
			}
			e, err := ParseSpecExpr(rest[idx+1:])
			if err != nil {
				return fail("%v", err)
			}
			w.axioms = append(w.axioms, &SpecAxiom{Name: strings.TrimSpace(rest[:idx]), E: e, Src: rest, File: r.file})
			cur = nil
		case "lemma":
			// lemma name(params): requires A; requires B; ensures C
			m := regexp.MustCompile(`^([A-Za-z_][A-Za-z0-9_]*)\((.*?)\)\s*:\s*(.*)$`).FindStringSubmatch(rest)
			if m == nil {
				return fail("lemma name(params): requires ..; ensures ..")
			}
			bs, err := parseBinders(m[2])
			if err != nil {
				return fail("%v", err)
			}
			lm := &SpecLemma{Name: m[1], Params: bs, Src: rest, File: r.file, Line: r.line, Assumed: true}
			for _, part := range strings.Split(m[3], ";") {
				part = strings.TrimSpace(part)
				switch {
				case strings.HasPrefix(part, "requires"):
					e, err := ParseSpecExpr(part[len("requires"):])
					if err != nil {
						return fail("%v", err)
					}
					lm.Requires = append(lm.Requires, e)
				case strings.HasPrefix(part, "ensures"):
					e, err := ParseSpecExpr(part[len("ensures"):])
					if err != nil {
						return fail("%v", err)
					}
					lm.Ensures = append(lm.Ensures, e)
				case part == "proved":
					lm.Assumed = false
				case strings.HasPrefix(part, "use "):
					u, err := parseUse(strings.TrimSpace(part[len("use "):]), r.file, r.line)
					if err != nil {
						return fail("%v", err)
					}
					lm.Uses = append(lm.Uses, u)
				case strings.HasPrefix(part, "induction "):
					lm.Induct = strings.TrimSpace(part[len("induction "):])
					lm.Assumed = false
				case part == "":
				default:
					return fail("bad lemma part %q", part)
				}
			}
			if _, dup := w.lemmas[lm.Name]; dup {
				return fail("duplicate lemma %s", lm.Name)
			}
			w.lemmas[lm.Name] = lm
			cur = nil
		case "ghost":
			fs := strings.Fields(rest)
			if len(fs) == 3 && fs[0] == "scratch" {
				// bookkeeping ghost state private to a proof: exempt from frame checks
				w.ghostVars[fs[1]] = fs[2]
				w.scratch["G_"+fs[1]] = true
			} else if len(fs) == 3 && fs[0] == "var" {
				w.ghostVars[fs[1]] = fs[2] // spec type; resolved later
			} else if len(fs) == 3 && fs[0] == "field" {
				// ghost field Type.name type
				i := strings.LastIndex(fs[1], ".")
				tk := fs[1][:i]
				if pkg != "" && !strings.Contains(tk, ".") {
					tk = pkg + "." + tk
				}
				w.ghostFields[tk+"."+fs[1][i+1:]] = ghostField{TypeKey: tk, Name: fs[1][i+1:], Type: fs[2]}
			} else {
				return fail("ghost var NAME TYPE | ghost field T.NAME TYPE")
			}
			cur = nil
		case "const":
			idx := strings.Index(rest, "=")
			if idx < 0 {
				return fail("const name = expr")
			}
			e, err := ParseSpecExpr(rest[idx+1:])
			if err != nil {
				return fail("%v", err)
			}
			w.consts[strings.TrimSpace(rest[:idx])] = e
			cur = nil
		case "invariant", "decreases":
			return fail("%s must be written as 'loop N: %s ...'", kw, kw)
		default:
			return fail("unknown directive in %q", t)
		}
	}
	return nil
}

func (w *World) loadAllSpecs(repo, verif string) ([]string, error) {
	var files []string
	// assumed + shared specs first
	for _, pat := range []string{filepath.Join(verif, "contracts", "shared", "*.spec"), filepath.Join(verif, "contracts", "assumed", "*.spec")} {
		ms, _ := filepath.Glob(pat)
		sort.Strings(ms)
		for _, m := range ms {
			if err := w.loadSpecFile(m, ""); err != nil {
				return nil, err
			}
			files = append(files, m)
		}
	}
	err := filepath.Walk(repo, func(path string, info os.FileInfo, err error) error {
		if err != nil {
			return nil
		}
		if info.IsDir() && (info.Name() == ".git" || info.Name() == "docs") {
			return filepath.SkipDir
		}
		if !info.IsDir() && info.Name() == "zz_contracts_verif.go" {
			rel, _ := filepath.Rel(repo, filepath.Dir(path))
			pkg := strings.ReplaceAll(rel, string(filepath.Separator), "_")
			if err := w.loadSpecFile(path, pkg); err != nil {
				return err
			}
			files = append(files, path)
		}
		return nil
	})
	return files, err
}
