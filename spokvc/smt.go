package main

// SMT sorts, Go type -> sort mapping, datatype registry, string literal registry.

import (
	"fmt"
	"go/types"
	"sort"
	"strings"
)

type Sort = string

type Val struct {
	T string     // SMT term
	S Sort       // SMT sort
	G types.Type // Go type when known
	L *LVal      // when this is a pointer produced by FieldAddr/IndexAddr: the location it denotes
}

// LVal is a generation-time description of a memory location.
type LVal struct {
	Kind   string // "field", "cell", "sliceidx", "arridx"
	Base   Val    // Ref (field/cell/arridx: pointer to struct / cell); slice value for sliceidx
	Heap   string // heap variable name (field, cell, arridx)
	Idx    *Val   // index for sliceidx / arridx / field-with-array
	Sub    []subSel
	ElemS  Sort
	ElemG  types.Type
	Parent *LVal // for sliceidx whose slice itself lives in a location (store-through)
}

type subSel struct {
	DT    string // datatype sort
	Field string // selector name
	All   []string
	Cons  string
}

// World holds everything global to a run: loaded program, sorts, specs.
type World struct {
	structSorts map[string]*structSort // sort name -> info
	structOrder []string
	heapVars    map[string]Sort // heap variable name -> sort (Array Ref X) or ghost sort
	lits        map[string]string
	litOrder    []string
	typeIDs     map[string]int // dynamic type ids for interfaces
	typeIDOrder []string
	funcIDs     map[string]int
	boxFns      map[Sort]bool
	elemSorts   map[Sort]bool // sorts used as Slc / Array element (for declarations)
	specFuns    map[string]*SpecFun
	specFunOrd  []string
	preds       map[string]*SpecPred
	axioms      []*SpecAxiom
	lemmas      map[string]*SpecLemma
	ghostVars   map[string]Sort
	aliases     map[string]map[string]string // rename recovery (alias.go): function key -> contract name -> source name
	aliasNotes  []string
	ghostFields map[string]ghostField // "pkg.Type.name"
	funcSpecs   map[string]*FuncSpec
	ifaceSpecs  map[string]*FuncSpec
	consts      map[string]Expr
	prog        *Program
	scratch     map[string]bool
	constArrs   map[string][3]string
	constArrOrd []string
}

type structSort struct {
	Name   string
	Fields []string // selector names
	Sorts  []Sort
	GoT    *types.Struct
	Named  string
	GoType types.Type
}

func newWorld() *World {
	return &World{
		structSorts: map[string]*structSort{},
		heapVars:    map[string]Sort{},
		lits:        map[string]string{},
		typeIDs:     map[string]int{},
		funcIDs:     map[string]int{},
		boxFns:      map[Sort]bool{},
		elemSorts:   map[Sort]bool{},
		specFuns:    map[string]*SpecFun{},
		preds:       map[string]*SpecPred{},
		lemmas:      map[string]*SpecLemma{},
		ghostVars:   map[string]Sort{},
		ghostFields: map[string]ghostField{},
		funcSpecs:   map[string]*FuncSpec{},
		ifaceSpecs:  map[string]*FuncSpec{},
		consts:      map[string]Expr{},
		scratch:     map[string]bool{},
	}
}

func sanitize(s string) string {
	var b strings.Builder
	for _, r := range s {
		switch {
		case r >= 'a' && r <= 'z', r >= 'A' && r <= 'Z', r >= '0' && r <= '9', r == '_':
			b.WriteRune(r)
		default:
			b.WriteRune('_')
		}
	}
	return b.String()
}

func shortPkg(p *types.Package) string {
	if p == nil {
		return ""
	}
	path := p.Path()
	const mod = "github.com/FollowTheProcess/spok/"
	if strings.HasPrefix(path, mod) {
		return strings.ReplaceAll(path[len(mod):], "/", "_")
	}
	return path
}

func namedKey(n *types.Named) string {
	obj := n.Obj()
	if obj.Pkg() == nil {
		return obj.Name()
	}
	s := shortPkg(obj.Pkg()) + "." + obj.Name()
	if ta := n.TypeArgs(); ta != nil && ta.Len() > 0 {
		var parts []string
		for i := 0; i < ta.Len(); i++ {
			parts = append(parts, types.TypeString(ta.At(i), func(p *types.Package) string { return shortPkg(p) }))
		}
		s += "[" + strings.Join(parts, ",") + "]"
	}
	return s
}

// sortOf maps a Go type to an SMT sort.
func (w *World) sortOf(t types.Type) Sort {
	switch tt := t.(type) {
	case *types.Named:
		if st, ok := tt.Underlying().(*types.Struct); ok {
			n := w.structSortOf(namedKey(tt), st)
			if ss := w.structSorts[n]; ss != nil && ss.GoType == nil {
				ss.GoType = tt
			}
			return n
		}
		return w.sortOf(tt.Underlying())
	case *types.Alias:
		return w.sortOf(types.Unalias(tt))
	case *types.Basic:
		switch {
		case tt.Info()&types.IsBoolean != 0:
			return "Bool"
		case tt.Info()&types.IsInteger != 0:
			return "Int"
		case tt.Info()&types.IsString != 0:
			return "Str"
		case tt.Kind() == types.UntypedNil:
			return "Iface"
		case tt.Info()&types.IsFloat != 0:
			return "Real"
		case tt.Kind() == types.UnsafePointer:
			return "Ref"
		}
		return "Int"
	case *types.Pointer:
		return "Ref"
	case *types.Struct:
		return w.structSortOf("anon_"+sanitize(tt.String()), tt)
	case *types.Slice:
		e := w.sortOf(tt.Elem())
		w.elemSorts[e] = true
		return "(Slc " + e + ")"
	case *types.Array:
		e := w.sortOf(tt.Elem())
		w.elemSorts[e] = true
		return "(Array Int " + e + ")"
	case *types.Map:
		return "Ref"
	case *types.Chan:
		return "Ref"
	case *types.Interface:
		return "Iface"
	case *types.Signature:
		return "Int"
	case *types.Tuple:
		return "Tuple"
	case *types.TypeParam:
		return "Iface"
	}
	return "Int"
}

func (w *World) structSortOf(key string, st *types.Struct) Sort {
	name := "S_" + sanitize(key)
	if _, ok := w.structSorts[name]; ok {
		return name
	}
	ss := &structSort{Name: name, GoT: st, Named: key}
	w.structSorts[name] = ss // register first (recursion through pointers yields Ref anyway)
	for i := 0; i < st.NumFields(); i++ {
		f := st.Field(i)
		fn := name + "_" + sanitize(f.Name())
		if f.Name() == "_" {
			fn = fmt.Sprintf("%s_blank%d", name, i)
		}
		ss.Fields = append(ss.Fields, fn)
		ss.Sorts = append(ss.Sorts, w.sortOf(f.Type()))
	}
	w.structOrder = append(w.structOrder, name)
	return name
}

func (w *World) mapHeap(m *types.Map) (string, Sort, Sort) {
	k := w.sortOf(m.Key())
	v := w.sortOf(m.Elem())
	name := "MapH_" + sanitize(k) + "_" + sanitize(v)
	w.elemSorts[v] = true
	w.heapVars[name] = "(Array Ref (MapV " + k + " " + v + "))"
	return name, k, v
}

func (w *World) cellHeap(s Sort) string {
	name := "Cell_" + sanitize(s)
	w.heapVars[name] = "(Array Ref " + s + ")"
	return name
}

func (w *World) fieldHeap(named string, st *types.Struct, i int) (string, Sort) {
	f := st.Field(i)
	s := w.sortOf(f.Type())
	name := "H_" + sanitize(named) + "_" + sanitize(f.Name())
	w.heapVars[name] = "(Array Ref " + s + ")"
	return name, s
}

// zero value term of a sort / Go type
func (w *World) zero(t types.Type) string {
	return w.zeroSort(w.sortOf(t))
}

func (w *World) zeroSort(s Sort) string {
	switch {
	case s == "Int":
		return "0"
	case s == "Bool":
		return "false"
	case s == "Str":
		return "str_empty"
	case s == "Ref":
		return "ref_nil"
	case s == "Iface":
		return "iface_nil"
	case s == "Real":
		return "0.0"
	case strings.HasPrefix(s, "(Slc "):
		e := s[5 : len(s)-1]
		return "((as mk_slc (Slc " + e + ")) " + w.constArr("Int", e) + " 0)"
	case strings.HasPrefix(s, "(Array Int "):
		e := s[len("(Array Int ") : len(s)-1]
		return w.constArr("Int", e)
	case strings.HasPrefix(s, "(Array "):
		// (Array K V) -- ghost maps/sets
		k, v := splitArraySort(s)
		return w.constArr(k, v)
	case strings.HasPrefix(s, "S_"):
		ss := w.structSorts[s]
		if len(ss.Fields) == 0 {
			return "mk_" + s
		}
		var parts []string
		for _, fs := range ss.Sorts {
			parts = append(parts, w.zeroSort(fs))
		}
		return "(mk_" + s + " " + strings.Join(parts, " ") + ")"
	}
	return "0"
}

func splitArraySort(s Sort) (string, string) {
	// s = "(Array K V)"; K, V may be parenthesised
	body := s[len("(Array ") : len(s)-1]
	depth := 0
	for i := 0; i < len(body); i++ {
		switch body[i] {
		case '(':
			depth++
		case ')':
			depth--
		case ' ':
			if depth == 0 {
				return body[:i], body[i+1:]
			}
		}
	}
	return body, ""
}

func slcElem(s Sort) Sort { return s[5 : len(s)-1] }

// literal strings
func (w *World) lit(s string) string {
	if s == "" {
		return "str_empty"
	}
	if n, ok := w.lits[s]; ok {
		return n
	}
	n := fmt.Sprintf("lit_%d", len(w.litOrder))
	w.lits[s] = n
	w.litOrder = append(w.litOrder, s)
	return n
}

func (w *World) typeID(t types.Type) int {
	k := types.TypeString(t, func(p *types.Package) string { return shortPkg(p) })
	if id, ok := w.typeIDs[k]; ok {
		return id
	}
	id := len(w.typeIDs) + 1
	w.typeIDs[k] = id
	w.typeIDOrder = append(w.typeIDOrder, k)
	return id
}

func (w *World) funcID(key string) int {
	if id, ok := w.funcIDs[key]; ok {
		return id
	}
	id := len(w.funcIDs) + 1
	w.funcIDs[key] = id
	return id
}

func (w *World) boxFn(s Sort) string {
	w.boxFns[s] = true
	return "box_" + sanitize(s)
}
func (w *World) payFn(s Sort) string {
	w.boxFns[s] = true
	return "pay_" + sanitize(s)
}

// prelude emits all global declarations.
func (w *World) prelude(usedLits map[string]bool) string {
	var b strings.Builder
	b.WriteString("(declare-sort Str 0)\n(declare-sort Iface 0)\n")
	b.WriteString("(define-sort Ref () Int)\n(define-fun ref_nil () Ref 0)\n")
	b.WriteString("(declare-datatypes ((Slc 1)) ((par (T) ((mk_slc (slc_arr (Array Int T)) (slc_len Int))))))\n")
	b.WriteString("(declare-datatypes ((MapV 2)) ((par (K V) ((mk_map (map_dom (Array K Bool)) (map_val (Array K V)))))))\n")
	b.WriteString("(declare-const str_empty Str)\n(declare-const iface_nil Iface)\n")
	b.WriteString("(declare-fun slen (Str) Int)\n(declare-fun sat (Str Int) Int)\n(declare-fun substr (Str Int Int) Str)\n(declare-fun sconcat (Str Str) Str)\n")
	b.WriteString("(declare-fun dyntype (Iface) Int)\n(declare-fun errmsg (Iface) Str)\n")
	b.WriteString("(assert (= (slen str_empty) 0))\n(assert (= (dyntype iface_nil) 0))\n")
	b.WriteString("(assert (forall ((s Str)) (! (>= (slen s) 0) :pattern ((slen s)))))\n")
	b.WriteString("(assert (forall ((s Str)) (! (=> (= (slen s) 0) (= s str_empty)) :pattern ((slen s)))))\n")
	b.WriteString("(assert (forall ((s Str) (i Int)) (! (and (<= 0 (sat s i)) (<= (sat s i) 255)) :pattern ((sat s i)))))\n")
	b.WriteString("(assert (forall ((s Str) (i Int) (j Int)) (! (=> (and (<= 0 i) (<= i j) (<= j (slen s))) (= (slen (substr s i j)) (- j i))) :pattern ((substr s i j)))))\n")
	b.WriteString("(assert (forall ((s Str) (i Int) (j Int) (k Int)) (! (=> (and (<= 0 i) (<= i j) (<= j (slen s)) (<= 0 k) (< k (- j i))) (= (sat (substr s i j) k) (sat s (+ i k)))) :pattern ((sat (substr s i j) k)))))\n")
	b.WriteString("(assert (forall ((s Str)) (! (= (substr s 0 (slen s)) s) :pattern ((substr s 0 (slen s))))))\n")
	b.WriteString("(assert (forall ((s Str) (i Int) (j Int) (a Int) (b Int)) (! (=> (and (<= 0 i) (<= i j) (<= j (slen s)) (<= 0 a) (<= a b) (<= b (- j i))) (= (substr (substr s i j) a b) (substr s (+ i a) (+ i b)))) :pattern ((substr (substr s i j) a b)))))\n")
	b.WriteString("(assert (forall ((a Str) (b Str)) (! (= (slen (sconcat a b)) (+ (slen a) (slen b))) :pattern ((sconcat a b)))))\n")
	b.WriteString("(assert (forall ((a Str) (b Str) (k Int)) (! (= (sat (sconcat a b) k) (ite (< k (slen a)) (sat a k) (sat b (- k (slen a))))) :pattern ((sat (sconcat a b) k)))))\n")
	b.WriteString("(assert (forall ((a Str)) (! (= (sconcat a str_empty) a) :pattern ((sconcat a str_empty)))))\n")
	b.WriteString("(assert (forall ((a Str)) (! (= (sconcat str_empty a) a) :pattern ((sconcat str_empty a)))))\n")
	b.WriteString("(assert (forall ((a Str) (b Str) (c Str)) (! (= (sconcat (sconcat a b) c) (sconcat a (sconcat b c))) :pattern ((sconcat (sconcat a b) c)))))\n")
	// struct datatypes (registration order is dependency order: inner first)
	for _, n := range w.structOrder {
		ss := w.structSorts[n]
		if len(ss.Fields) == 0 {
			fmt.Fprintf(&b, "(declare-datatypes ((%s 0)) (((mk_%s))))\n", n, n)
			continue
		}
		fmt.Fprintf(&b, "(declare-datatypes ((%s 0)) (((mk_%s", n, n)
		for i, f := range ss.Fields {
			fmt.Fprintf(&b, " (%s %s)", f, ss.Sorts[i])
		}
		b.WriteString("))))\n")
	}
	// interface boxing
	var bs []string
	for s := range w.boxFns {
		bs = append(bs, s)
	}
	sort.Strings(bs)
	for _, s := range bs {
		fmt.Fprintf(&b, "(declare-fun box_%s (%s) Iface)\n(declare-fun pay_%s (Iface) %s)\n", sanitize(s), s, sanitize(s), s)
	}
	// literals
	var ls []string
	for _, s := range w.litOrder {
		if usedLits == nil || usedLits[w.lits[s]] {
			ls = append(ls, s)
		}
	}
	for _, s := range ls {
		n := w.lits[s]
		fmt.Fprintf(&b, "(declare-const %s Str)\n(assert (= (slen %s) %d))\n", n, n, len(s))
		for i := 0; i < len(s); i++ {
			fmt.Fprintf(&b, "(assert (= (sat %s %d) %d))\n", n, i, s[i])
		}
	}
	if len(ls) > 1 {
		b.WriteString("(assert (distinct")
		for _, s := range ls {
			b.WriteString(" " + w.lits[s])
		}
		b.WriteString("))\n")
	}
	for _, n := range w.constArrOrd {
		ca := w.constArrs[n]
		fmt.Fprintf(&b, "(declare-const %s (Array %s %s))\n(assert (forall ((i %s)) (! (= (select %s i) %s) :pattern ((select %s i)))))\n", n, ca[0], ca[1], ca[0], n, ca[2], n)
	}
	// spec functions
	for _, n := range w.specFunOrd {
		f := w.specFuns[n]
		if f.Builtin {
			continue
		}
		w.resolveSpecFun(f)
		fmt.Fprintf(&b, "(declare-fun %s (%s) %s)\n", f.SMTName, strings.Join(f.ParamSorts, " "), f.Ret)
	}
	return b.String()
}

// constArr: the array mapping every index to the zero value of vs. Solvers differ on `as const`
// with a non-literal default (cvc5 wants a value), so for those sorts an uninterpreted array
// constant with a defining axiom is used instead.
func (w *World) constArr(ks, vs Sort) string {
	z := w.zeroSort(vs)
	if z == "0" || z == "false" || z == "0.0" || z == "ref_nil" {
		if z == "ref_nil" {
			z = "0"
		}
		return "((as const (Array " + ks + " " + vs + ")) " + z + ")"
	}
	n := "carr_" + sanitize(ks) + "_" + sanitize(vs)
	if w.constArrs == nil {
		w.constArrs = map[string][3]string{}
	}
	if _, ok := w.constArrs[n]; !ok {
		w.constArrs[n] = [3]string{ks, vs, z}
		w.constArrOrd = append(w.constArrOrd, n)
	}
	return n
}
