package main

// Translation of contract expressions to SMT terms.

import (
	"fmt"
	"go/constant"
	"go/types"
	"strings"

	"golang.org/x/tools/go/ssa"
)

type State map[string]string

func (s State) clone() State {
	n := make(State, len(s))
	for k, v := range s {
		n[k] = v
	}
	return n
}

type Env struct {
	g     *Gen
	act   *Act
	vars  map[string]Val
	st    State
	old   State
	pkg   string // short package for resolving bare names
	phiOv map[ssa.Value]Val
	at    *ssa.BasicBlock
	atIdx int
	depth int
	// aliasKey: the function whose contract is being translated (rename recovery, alias.go)
	aliasKey string
}

type specErr string

func (e *Env) fail(f string, a ...interface{}) { panic(specErr(fmt.Sprintf(f, a...))) }

func (e *Env) with(vars map[string]Val) *Env {
	n := *e
	n.vars = map[string]Val{}
	for k, v := range e.vars {
		n.vars[k] = v
	}
	for k, v := range vars {
		n.vars[k] = v
	}
	return &n
}

// specSort resolves a spec type name to (sort, Go type or nil).
func (w *World) specSort(name, pkg string) (Sort, types.Type) {
	switch name {
	case "", "int", "rune", "byte", "int64", "uint8":
		return "Int", types.Typ[types.Int]
	case "bool":
		return "Bool", types.Typ[types.Bool]
	case "string":
		return "Str", types.Typ[types.String]
	case "error", "iface", "any":
		return "Iface", nil
	case "ref":
		return "Ref", nil
	}
	if strings.HasPrefix(name, "*") {
		_, g := w.specSort(name[1:], pkg)
		if g != nil {
			return "Ref", types.NewPointer(g)
		}
		return "Ref", nil
	}
	if strings.HasPrefix(name, "[]") {
		s, g := w.specSort(name[2:], pkg)
		w.elemSorts[s] = true
		if g != nil {
			return "(Slc " + s + ")", types.NewSlice(g)
		}
		return "(Slc " + s + ")", nil
	}
	if strings.HasPrefix(name, "gomap[") {
		// a Go map value (a reference into the map heap): gomap[K]V
		depth := 0
		for i := 5; i < len(name); i++ {
			if name[i] == '[' {
				depth++
			} else if name[i] == ']' {
				depth--
				if depth == 0 {
					_, kg := w.specSort(name[6:i], pkg)
					_, vg := w.specSort(name[i+1:], pkg)
					if kg != nil && vg != nil {
						return "Ref", types.NewMap(kg, vg)
					}
					return "Ref", nil
				}
			}
		}
	}
	if strings.HasPrefix(name, "map[") {
		// ghost map: pure array
		depth := 0
		for i := 3; i < len(name); i++ {
			if name[i] == '[' {
				depth++
			} else if name[i] == ']' {
				depth--
				if depth == 0 {
					k, _ := w.specSort(name[4:i], pkg)
					v, _ := w.specSort(name[i+1:], pkg)
					return "(Array " + k + " " + v + ")", nil
				}
			}
		}
	}
	if strings.HasPrefix(name, "mapv[") {
		depth := 0
		for i := 4; i < len(name); i++ {
			if name[i] == '[' {
				depth++
			} else if name[i] == ']' {
				depth--
				if depth == 0 {
					k, _ := w.specSort(name[5:i], pkg)
					v, _ := w.specSort(name[i+1:], pkg)
					w.elemSorts[v] = true
					return "(MapV " + k + " " + v + ")", nil
				}
			}
		}
	}
	if strings.HasPrefix(name, "set[") {
		k, _ := w.specSort(name[4:len(name)-1], pkg)
		return "(Array " + k + " Bool)", nil
	}
	if i := strings.Index(name, "."); i >= 0 {
		if n := w.prog.lookupNamed(name[:i], name[i+1:]); n != nil {
			return w.sortOf(n), n
		}
		panic(specErr("unknown type " + name))
	}
	if pkg != "" {
		if n := w.prog.lookupNamed(pkg, name); n != nil {
			return w.sortOf(n), n
		}
	}
	// unique bare name among repo packages
	var found *types.Named
	for _, k := range []string{"lexer", "parser", "ast", "token", "file", "task", "cache", "hash", "shell", "builtins", "cli_app", "cli_cmd", "iostream", "logger"} {
		if n := w.prog.lookupNamed(k, name); n != nil {
			if found != nil {
				panic(specErr("ambiguous type " + name))
			}
			found = n
		}
	}
	if found != nil {
		return w.sortOf(found), found
	}
	panic(specErr("unknown type " + name))
}

func boolT(t string) Val { return Val{T: t, S: "Bool", G: types.Typ[types.Bool]} }
func intT(t string) Val  { return Val{T: t, S: "Int", G: types.Typ[types.Int]} }

func smtInt(n int64) string {
	if n < 0 {
		return fmt.Sprintf("(- %d)", -n)
	}
	return fmt.Sprintf("%d", n)
}

func and(ts ...string) string {
	var xs []string
	for _, t := range ts {
		if t == "true" || t == "" {
			continue
		}
		if t == "false" {
			return "false"
		}
		xs = append(xs, t)
	}
	switch len(xs) {
	case 0:
		return "true"
	case 1:
		return xs[0]
	}
	return "(and " + strings.Join(xs, " ") + ")"
}

func or(ts ...string) string {
	var xs []string
	for _, t := range ts {
		if t == "false" || t == "" {
			continue
		}
		if t == "true" {
			return "true"
		}
		xs = append(xs, t)
	}
	switch len(xs) {
	case 0:
		return "false"
	case 1:
		return xs[0]
	}
	return "(or " + strings.Join(xs, " ") + ")"
}

func not(t string) string {
	switch t {
	case "true":
		return "false"
	case "false":
		return "true"
	}
	if strings.HasPrefix(t, "(not ") && balanced(t[5:len(t)-1]) {
		return t[5 : len(t)-1]
	}
	return "(not " + t + ")"
}

func balanced(s string) bool {
	d := 0
	for i := 0; i < len(s); i++ {
		if s[i] == '(' {
			d++
		} else if s[i] == ')' {
			d--
			if d < 0 {
				return false
			}
		}
	}
	return d == 0
}

func implies(a, b string) string {
	if a == "true" {
		return b
	}
	if a == "false" || b == "true" {
		return "true"
	}
	return "(=> " + a + " " + b + ")"
}

func (e *Env) tr(x Expr) Val {
	switch x := x.(type) {
	case EInt:
		return intT(smtInt(x.V))
	case EBool:
		if x.V {
			return boolT("true")
		}
		return boolT("false")
	case EStr:
		return Val{T: e.g.w.lit(x.V), S: "Str", G: types.Typ[types.String]}
	case EIdent:
		return e.ident(x.Name)
	case EOld:
		if e.old == nil {
			e.fail("old() not available here")
		}
		n := *e
		n.st = e.old
		n.phiOv = nil
		n.at = nil
		return n.tr(x.X)
	case EUn:
		v := e.tr(x.X)
		switch x.Op {
		case "!":
			e.want(v, "Bool", x)
			return boolT(not(v.T))
		case "-":
			e.want(v, "Int", x)
			return intT("(- " + v.T + ")")
		}
	case EIte:
		c := e.tr(x.C)
		a := e.tr(x.A)
		b := e.tr(x.B)
		e.want(c, "Bool", x)
		if a.S != b.S {
			e.fail("ite branches differ in sort: %s vs %s", a.S, b.S)
		}
		return Val{T: "(ite " + c.T + " " + a.T + " " + b.T + ")", S: a.S, G: a.G}
	case EBin:
		switch x.Op {
		case "&&", "||", "==>", "<==>":
			l := e.tr(x.L)
			r := e.tr(x.R)
			e.want(l, "Bool", x.L)
			e.want(r, "Bool", x.R)
			switch x.Op {
			case "&&":
				return boolT(and(l.T, r.T))
			case "||":
				return boolT(or(l.T, r.T))
			case "==>":
				return boolT(implies(l.T, r.T))
			default:
				return boolT("(= " + l.T + " " + r.T + ")")
			}
		case "==", "!=":
			l := e.tr(x.L)
			r := e.tr(x.R)
			l, r = e.unifyNil(l, r, x)
			if l.S != r.S {
				e.fail("comparing %s with %s in %v", l.S, r.S, exprString(x))
			}
			t := "(= " + l.T + " " + r.T + ")"
			if x.Op == "!=" {
				t = not(t)
			}
			return boolT(t)
		case "<", "<=", ">", ">=":
			l := e.tr(x.L)
			r := e.tr(x.R)
			e.want(l, "Int", x.L)
			e.want(r, "Int", x.R)
			return boolT("(" + x.Op + " " + l.T + " " + r.T + ")")
		case "+", "-", "*", "/", "%":
			l := e.tr(x.L)
			r := e.tr(x.R)
			if x.Op == "+" && l.S == "Str" && r.S == "Str" {
				return Val{T: "(sconcat " + l.T + " " + r.T + ")", S: "Str", G: l.G}
			}
			e.want(l, "Int", x.L)
			e.want(r, "Int", x.R)
			op := x.Op
			if op == "/" {
				op = "div"
			} else if op == "%" {
				op = "mod"
			}
			return intT("(" + op + " " + l.T + " " + r.T + ")")
		}
	case ESel:
		return e.sel(x)
	case EIndex:
		b := e.tr(x.X)
		i := e.tr(x.I)
		switch {
		case b.S == "Str":
			e.want(i, "Int", x.I)
			return intT("(sat " + b.T + " " + i.T + ")")
		case strings.HasPrefix(b.S, "(Slc "):
			e.want(i, "Int", x.I)
			var eg types.Type
			if b.G != nil {
				if sl, ok := b.G.Underlying().(*types.Slice); ok {
					eg = sl.Elem()
				}
			}
			return Val{T: "(select (slc_arr " + b.T + ") " + i.T + ")", S: slcElem(b.S), G: eg}
		case b.G != nil && isMap(b.G):
			m := b.G.Underlying().(*types.Map)
			return e.g.mapRead(e.st, b, i, m)
		case strings.HasPrefix(b.S, "(Array "):
			k, v := splitArraySort(b.S)
			if i.S != k {
				e.fail("index sort %s, want %s", i.S, k)
			}
			var eg types.Type
			if b.G != nil {
				if ar, ok := b.G.Underlying().(*types.Array); ok {
					eg = ar.Elem()
				}
			}
			return Val{T: "(select " + b.T + " " + i.T + ")", S: v, G: eg}
		}
		e.fail("cannot index %s", b.S)
	case ESlice:
		b := e.tr(x.X)
		lo := "0"
		if x.Lo != nil {
			lo = e.tr(x.Lo).T
		}
		if b.S == "Str" {
			hi := "(slen " + b.T + ")"
			if x.Hi != nil {
				hi = e.tr(x.Hi).T
			}
			return Val{T: "(substr " + b.T + " " + lo + " " + hi + ")", S: "Str", G: b.G}
		}
		if strings.HasPrefix(b.S, "(Slc ") && lo == "0" {
			hi := e.tr(x.Hi).T
			return Val{T: "((as mk_slc " + b.S + ") (slc_arr " + b.T + ") " + hi + ")", S: b.S, G: b.G}
		}
		e.fail("cannot slice %s", b.S)
	case ECall:
		return e.call(x)
	case EQuant:
		vars := map[string]Val{}
		var decl []string
		for _, b := range x.Vars {
			s, g := e.g.w.specSort(b.Type, e.pkg)
			n := e.g.freshName("q_" + b.Name)
			vars[b.Name] = Val{T: n, S: s, G: g}
			decl = append(decl, "("+n+" "+s+")")
		}
		ne := e.with(vars)
		body := ne.tr(x.Body)
		e.want(body, "Bool", x.Body)
		q := "exists"
		if x.Forall {
			q = "forall"
		}
		bt := body.T
		if len(x.Trig) > 0 {
			var pats []string
			for _, tr := range x.Trig {
				var ps []string
				for _, t := range tr {
					ps = append(ps, ne.tr(t).T)
				}
				pats = append(pats, ":pattern ("+strings.Join(ps, " ")+")")
			}
			bt = "(! " + bt + " " + strings.Join(pats, " ") + ")"
		}
		return boolT("(" + q + " (" + strings.Join(decl, " ") + ") " + bt + ")")
	}
	e.fail("unsupported expression %T", x)
	return Val{}
}

func isMap(t types.Type) bool {
	_, ok := t.Underlying().(*types.Map)
	return ok
}

func (e *Env) want(v Val, s Sort, x Expr) {
	if v.S != s {
		e.fail("expected %s, got %s in %s", s, v.S, exprString(x))
	}
}

func (e *Env) unifyNil(l, r Val, x Expr) (Val, Val) {
	if l.T == "$nil" && r.T == "$nil" {
		e.fail("nil == nil")
	}
	fix := func(n, o Val) Val {
		switch {
		case o.S == "Iface":
			return Val{T: "iface_nil", S: "Iface"}
		case o.S == "Ref":
			return Val{T: "ref_nil", S: "Ref"}
		case o.S == "Int": // func values
			return Val{T: "0", S: "Int"}
		case strings.HasPrefix(o.S, "(Slc "):
			return Val{T: e.g.w.zeroSort(o.S), S: o.S}
		}
		e.fail("nil compared with %s", o.S)
		return n
	}
	if l.T == "$nil" {
		l = fix(l, r)
	}
	if r.T == "$nil" {
		r = fix(r, l)
	}
	return l, r
}

func (e *Env) ident(name string) Val {
	if al := e.g.w.aliases[e.aliasKey]; al != nil {
		if n, ok := al[name]; ok {
			name = n
		}
	}
	// inside a body (invariants, assertions, ghost code) a name denotes the current value of the
	// source variable, also when it is a reassigned parameter; in pre/postconditions and under
	// old() parameters denote their entry values
	if e.act != nil && e.at != nil {
		if v, ok := e.act.lookupLocal(name, e.at, e.atIdx, e.phiOv); ok {
			if v.S == "$addr" {
				pv := v
				pv.S = "Ref"
				return e.g.load(e.st, pv)
			}
			return v
		}
	}
	if v, ok := e.vars[name]; ok {
		if v.S == "$addr" {
			pv := v
			pv.S = "Ref"
			return e.g.load(e.st, pv)
		}
		return v
	}
	if name == "nil" {
		return Val{T: "$nil", S: "$nil"}
	}
	if name == "$seen" && e.act != nil {
		// the set of keys already delivered by the (only) map iterator of this function
		for _, it := range e.act.iters {
			if !it.isStr {
				return Val{T: e.g.stateGet(e.st, it.seen), S: e.g.w.heapVars[it.seen]}
			}
		}
		e.fail("$seen used without a map range loop (or before the range starts)")
	}
	if name == "$key" && e.act != nil {
		// the key most recently delivered by the (only) map iterator of this function
		for _, it := range e.act.iters {
			if !it.isStr && it.lastKey.T != "" {
				return it.lastKey
			}
		}
		e.fail("$key used before the map iterator delivered a key")
	}
	if name == "$iter" && e.act != nil {
		if v, ok := e.act.lookupLocal("rangeint.iter", e.at, e.atIdx, e.phiOv); ok {
			return v
		}
		e.fail("$iter used outside a range-over-int loop")
	}
	if name == "$i" && e.act != nil {
		if v, ok := e.act.lookupLocal("rangeindex", e.at, e.atIdx, e.phiOv); ok {
			return intT("(+ " + v.T + " 1)")
		}
		e.fail("$i used outside a range loop")
	}
	if e.act != nil {
		if v, ok := e.act.lookupLocal(name, e.at, e.atIdx, e.phiOv); ok {
			if v.S == "$addr" {
				pv := v
				pv.S = "Ref"
				return e.g.load(e.st, pv)
			}
			return v
		}
	}
	if gs, ok := e.g.w.ghostVars[name]; ok {
		s, g := e.g.w.specSort(gs, e.pkg)
		hv := "G_" + name
		e.g.w.heapVars[hv] = s
		return Val{T: e.g.stateGet(e.st, hv), S: s, G: g}
	}
	if c, ok := e.g.w.consts[name]; ok {
		return e.tr(c)
	}
	// package-level object in current package
	if e.pkg != "" {
		if v, ok := e.pkgObj(e.pkg, name); ok {
			return v
		}
	}
	for _, p := range []string{"unicode/utf8", "unicode"} {
		if v, ok := e.pkgObj(p, name); ok {
			return v
		}
	}
	e.fail("unknown identifier %q", name)
	return Val{}
}

func (e *Env) pkgObj(pkg, name string) (Val, bool) {
	o := e.g.w.prog.lookupObj(pkg, name)
	if o == nil {
		return Val{}, false
	}
	switch o := o.(type) {
	case *types.Const:
		return e.g.constVal(o.Val(), o.Type()), true
	case *types.Func:
		key := shortPkg(o.Pkg()) + "." + o.Name()
		return Val{T: smtInt(int64(e.g.w.funcID(key))), S: "Int", G: o.Type()}, true
	case *types.Var:
		// package-level variable: global cell
		s := e.g.w.sortOf(o.Type())
		hv := "GV_" + sanitize(shortPkg(o.Pkg())+"_"+o.Name())
		e.g.w.heapVars[hv] = s
		return Val{T: e.g.stateGet(e.st, hv), S: s, G: o.Type()}, true
	}
	return Val{}, false
}

func (g *Gen) constVal(c constant.Value, t types.Type) Val {
	s := g.w.sortOf(t)
	switch s {
	case "Int":
		if c == nil {
			return Val{T: "0", S: s, G: t}
		}
		if c.Kind() == constant.Int {
			n, _ := constant.Int64Val(c)
			return Val{T: smtInt(n), S: s, G: t}
		}
		if n, ok := constant.Int64Val(constant.ToInt(c)); ok {
			return Val{T: smtInt(n), S: s, G: t}
		}
	case "Bool":
		if constant.BoolVal(c) {
			return Val{T: "true", S: s, G: t}
		}
		return Val{T: "false", S: s, G: t}
	case "Str":
		return Val{T: g.w.lit(constant.StringVal(c)), S: s, G: t}
	case "Real":
		return Val{T: "0.0", S: s, G: t}
	}
	if c == nil {
		return Val{T: g.w.zeroSort(s), S: s, G: t}
	}
	return Val{T: g.w.zeroSort(s), S: s, G: t}
}

func (e *Env) sel(x ESel) Val {
	// package-qualified object?
	if id, ok := x.X.(EIdent); ok {
		if _, shadow := e.vars[id.Name]; !shadow {
			isLocal := false
			if e.act != nil {
				_, isLocal = e.act.lookupLocal(id.Name, e.at, e.atIdx, e.phiOv)
			}
			if !isLocal {
				if _, isG := e.g.w.ghostVars[id.Name]; !isG {
					if v, ok := e.pkgObj(id.Name, x.Name); ok {
						return v
					}
				}
			}
		}
	}
	// ghost field of a struct-typed local that lives in memory (e.g. a strings.Builder value whose
	// methods take its address): read it at the variable's allocation
	if id, ok := x.X.(EIdent); ok && e.act != nil {
		if _, shadow := e.vars[id.Name]; !shadow {
			if lv, isLocal := e.act.lookupLocal(id.Name, e.at, e.atIdx, e.phiOv); isLocal && lv.S == "$addr" && lv.G != nil {
				if pt, ok := lv.G.Underlying().(*types.Pointer); ok {
					if nt, ok := types.Unalias(pt.Elem()).(*types.Named); ok {
						if _, isGhost := e.g.w.ghostFields[namedKey(nt)+"."+x.Name]; isGhost {
							return e.g.selectField(e.st, Val{T: lv.T, S: "Ref", G: lv.G}, x.Name, func(f string, a ...interface{}) { e.fail(f, a...) })
						}
					}
				}
			}
		}
	}
	b := e.tr(x.X)
	return e.g.selectField(e.st, b, x.Name, func(f string, a ...interface{}) { e.fail(f, a...) })
}

// selectField reads field `name` of b (pointer-to-struct: heap; struct value: selector).
func (g *Gen) selectField(st State, b Val, name string, fail func(string, ...interface{})) Val {
	if b.G == nil {
		if ss := g.w.structSorts[b.S]; ss != nil && ss.GoType != nil {
			b.G = ss.GoType
		} else {
			fail("selector .%s on value without Go type (sort %s)", name, b.S)
		}
	}
	t := b.G
	if p, ok := t.Underlying().(*types.Pointer); ok {
		nt, ok := types.Unalias(p.Elem()).(*types.Named)
		if !ok {
			fail("selector .%s on pointer to unnamed type", name)
		}
		st2, ok := nt.Underlying().(*types.Struct)
		if !ok {
			fail("selector .%s on pointer to non-struct", name)
		}
		key := namedKey(nt)
		for i := 0; i < st2.NumFields(); i++ {
			if st2.Field(i).Name() == name {
				hv, s := g.w.fieldHeap(key, st2, i)
				return Val{T: "(select " + g.stateGet(st, hv) + " " + b.T + ")", S: s, G: st2.Field(i).Type()}
			}
		}
		if gf, ok := g.w.ghostFields[key+"."+name]; ok {
			s, gt := g.w.specSort(gf.Type, "")
			hv := "H_" + sanitize(key) + "_" + sanitize(name)
			g.w.heapVars[hv] = "(Array Ref " + s + ")"
			return Val{T: "(select " + g.stateGet(st, hv) + " " + b.T + ")", S: s, G: gt}
		}
		fail("type %s has no field %s", key, name)
	}
	if st2, ok := t.Underlying().(*types.Struct); ok {
		sn := g.w.sortOf(t)
		ss := g.w.structSorts[sn]
		for i := 0; i < st2.NumFields(); i++ {
			if st2.Field(i).Name() == name {
				return Val{T: "(" + ss.Fields[i] + " " + b.T + ")", S: ss.Sorts[i], G: st2.Field(i).Type()}
			}
		}
		// promoted fields through embedded structs (one level)
		for i := 0; i < st2.NumFields(); i++ {
			f := st2.Field(i)
			if f.Embedded() {
				if inner, ok := f.Type().Underlying().(*types.Struct); ok {
					for j := 0; j < inner.NumFields(); j++ {
						if inner.Field(j).Name() == name {
							iv := Val{T: "(" + ss.Fields[i] + " " + b.T + ")", S: ss.Sorts[i], G: f.Type()}
							return g.selectField(st, iv, name, fail)
						}
					}
				}
			}
		}
		fail("struct %s has no field %s", sn, name)
	}
	fail("selector .%s on %s", name, b.S)
	return Val{}
}

func (e *Env) call(x ECall) Val {
	w := e.g.w
	args := func() []Val {
		var vs []Val
		for _, a := range x.Args {
			vs = append(vs, e.tr(a))
		}
		return vs
	}
	switch x.Fn {
	case "len":
		v := e.tr(x.Args[0])
		switch {
		case v.S == "Str":
			return intT("(slen " + v.T + ")")
		case strings.HasPrefix(v.S, "(Slc "):
			return intT("(slc_len " + v.T + ")")
		case v.G != nil && isMap(v.G):
			m := v.G.Underlying().(*types.Map)
			hv, k, _ := w.mapHeap(m)
			return intT("(" + e.g.cardFn(k) + " (map_dom (select " + e.g.stateGet(e.st, hv) + " " + v.T + ")))")
		}
		e.fail("len of %s", v.S)
	case "dom":
		// dom(m, k): key k present in Go map m
		vs := args()
		if len(vs) != 2 || vs[0].G == nil || !isMap(vs[0].G) {
			e.fail("dom(m,k) needs a Go map")
		}
		m := vs[0].G.Underlying().(*types.Map)
		return boolT("(select (map_dom " + e.g.mapvalTerm(e.st, vs[0], m) + ") " + vs[1].T + ")")
	case "min", "max":
		vs := args()
		op := "<="
		if x.Fn == "max" {
			op = ">="
		}
		return intT("(ite (" + op + " " + vs[0].T + " " + vs[1].T + ") " + vs[0].T + " " + vs[1].T + ")")
	case "hasPrefixAt":
		// hasPrefixAt(s, i, "lit")
		if len(x.Args) != 3 {
			e.fail("hasPrefixAt(s,i,lit)")
		}
		s := e.tr(x.Args[0])
		i := e.tr(x.Args[1])
		lit, ok := x.Args[2].(EStr)
		if !ok {
			if c, ok2 := x.Args[2].(EIdent); ok2 {
				if ce, ok3 := w.consts[c.Name]; ok3 {
					lit, ok = ce.(EStr)
				}
			}
		}
		if !ok {
			e.fail("hasPrefixAt needs a literal")
		}
		return boolT(hasPrefixAt(s.T, i.T, lit.V))
	case "typeIs":
		// typeIs(x, pkg.Type)
		v := e.tr(x.Args[0])
		tn := typeArgString(x.Args[1])
		_, gt := w.specSort(tn, e.pkg)
		if gt == nil {
			e.fail("typeIs: unknown type %s", tn)
		}
		return boolT("(= (dyntype " + v.T + ") " + smtInt(int64(w.typeID(gt))) + ")")
	case "unbox":
		// unbox(x, pkg.Type): payload of interface x as concrete type
		v := e.tr(x.Args[0])
		tn := typeArgString(x.Args[1])
		s, gt := w.specSort(tn, e.pkg)
		return Val{T: "(" + w.payFn(s) + " " + v.T + ")", S: s, G: gt}
	case "unboxRef":
		v := e.tr(x.Args[0])
		return Val{T: "(" + w.payFn("Ref") + " " + v.T + ")", S: "Ref"}
	case "bytes":
		// bytes(s): []byte(s)
		v := e.tr(x.Args[0])
		if v.S != "Str" {
			e.fail("bytes() needs a string")
		}
		return Val{T: e.g.bytesOf(v.T), S: "(Slc Int)"}
	case "pair2":
		vs := args()
		if len(vs) != 2 || vs[0].S != vs[1].S {
			e.fail("pair2(a,b) needs two values of one sort")
		}
		es := vs[0].S
		w.elemSorts[es] = true
		return Val{T: "((as mk_slc (Slc " + es + ")) (store (store " + w.constArr("Int", es) + " 0 " + vs[0].T + ") 1 " + vs[1].T + ") 2)", S: "(Slc " + es + ")"}
	case "snoc":
		// snoc(s, x): s with x appended (the term append produces for a one-element addition)
		vs := args()
		if len(vs) != 2 || !strings.HasPrefix(vs[0].S, "(Slc ") || slcElem(vs[0].S) != vs[1].S {
			e.fail("snoc(slice, element)")
		}
		return Val{T: "((as mk_slc " + vs[0].S + ") (store (slc_arr " + vs[0].T + ") (slc_len " + vs[0].T + ") " + vs[1].T + ") (+ (slc_len " + vs[0].T + ") 1))", S: vs[0].S, G: vs[0].G}
	case "mupd":
		vs := args()
		if len(vs) != 3 || !strings.HasPrefix(vs[0].S, "(MapV ") {
			e.fail("mupd(mapvalue, key, value)")
		}
		return Val{T: "(mk_map (store (map_dom " + vs[0].T + ") " + vs[1].T + " true) (store (map_val " + vs[0].T + ") " + vs[1].T + " " + vs[2].T + "))", S: vs[0].S}
	case "emptymap":
		// emptymap(m): the empty map of the sort of m
		v := e.tr(x.Args[0])
		if !strings.HasPrefix(v.S, "(MapV ") {
			e.fail("emptymap(mapvalue)")
		}
		ks, es := splitArraySort("(Array " + v.S[len("(MapV "):])
		return Val{T: "(mk_map ((as const (Array " + ks + " Bool)) false) " + w.constArr(ks, es) + ")", S: v.S}
	case "str":
		// str(b): the string with the bytes of the []byte b
		v := e.tr(x.Args[0])
		if v.S != "(Slc Int)" {
			e.fail("str() needs a []byte")
		}
		return Val{T: "(" + e.g.strofFn() + " " + v.T + ")", S: "Str", G: types.Typ[types.String]}
	case "mapval":
		// mapval(m): the mathematical value (domain, values) of a Go map
		v := e.tr(x.Args[0])
		if v.G == nil || !isMap(v.G) {
			e.fail("mapval needs a Go map")
		}
		m := v.G.Underlying().(*types.Map)
		_, k, vs := w.mapHeap(m)
		return Val{T: e.g.mapvalTerm(e.st, v, m), S: "(MapV " + k + " " + vs + ")"}
	case "mget", "mhas":
		vs := args()
		if len(vs) != 2 || !strings.HasPrefix(vs[0].S, "(MapV ") {
			e.fail("%s(mapvalue, key)", x.Fn)
		}
		ks, es := splitArraySort("(Array " + vs[0].S[len("(MapV "):])
		if vs[1].S != ks {
			e.fail("%s: key sort %s, want %s", x.Fn, vs[1].S, ks)
		}
		if x.Fn == "mhas" {
			return boolT("(select (map_dom " + vs[0].T + ") " + vs[1].T + ")")
		}
		return Val{T: "(" + e.g.mgetFn(ks, es) + " " + vs[0].T + " " + vs[1].T + ")", S: es}
	case "store":
		vs := args()
		if len(vs) != 3 || !strings.HasPrefix(vs[0].S, "(Array ") {
			e.fail("store(ghostmap, key, value)")
		}
		ks, es := splitArraySort(vs[0].S)
		if vs[1].S != ks || vs[2].S != es {
			e.fail("store: sorts %s,%s want %s,%s", vs[1].S, vs[2].S, ks, es)
		}
		return Val{T: "(store " + vs[0].T + " " + vs[1].T + " " + vs[2].T + ")", S: vs[0].S}
	case "fresh":
		// fresh(x): x was allocated by the call whose postcondition this is
		v := e.tr(x.Args[0])
		if e.old == nil {
			e.fail("fresh() needs a pre-state")
		}
		w.heapVars["$wm"] = "Int"
		return boolT("(> " + v.T + " " + e.g.stateGet(e.old, "$wm") + ")")
	case "slicecat":
		vs := args()
		if vs[0].T == "$nil" {
			vs[0] = Val{T: w.zeroSort(vs[1].S), S: vs[1].S, G: vs[1].G}
		}
		e.g.slcCatAxioms(vs[0].S)
		return Val{T: "(" + e.g.slcCatFn(vs[0].S) + " " + vs[0].T + " " + vs[1].T + ")", S: vs[0].S, G: vs[0].G}
	}
	if p, ok := w.preds[x.Fn]; ok {
		if len(p.Params) != len(x.Args) {
			e.fail("pred %s: %d args expected", p.Name, len(p.Params))
		}
		if e.depth > 20 {
			e.fail("pred expansion too deep (recursive pred?) at %s", p.Name)
		}
		vars := map[string]Val{}
		for i, b := range p.Params {
			v := e.tr(x.Args[i])
			s, g := w.specSort(b.Type, e.pkg)
			if v.T == "$nil" {
				v = Val{T: w.zeroSort(s), S: s, G: g}
			}
			if v.S != s {
				e.fail("pred %s arg %s: sort %s, want %s", p.Name, b.Name, v.S, s)
			}
			if v.G == nil {
				v.G = g
			}
			vars[b.Name] = v
		}
		ne := &Env{g: e.g, vars: vars, st: e.st, old: e.old, pkg: e.pkg, depth: e.depth + 1}
		return ne.tr(p.Body)
	}
	if x.Fn == "errmsg" {
		v := e.tr(x.Args[0])
		return Val{T: "(errmsg " + v.T + ")", S: "Str", G: types.Typ[types.String]}
	}
	if f, ok := w.specFuns[x.Fn]; ok {
		w.resolveSpecFun(f)
		if len(f.Params) != len(x.Args) {
			e.fail("fun %s: %d args expected", f.Name, len(f.Params))
		}
		var ts []string
		for i, a := range x.Args {
			v := e.tr(a)
			if v.T == "$nil" {
				v = Val{T: w.zeroSort(f.ParamSorts[i]), S: f.ParamSorts[i]}
			}
			if v.S != f.ParamSorts[i] {
				e.fail("fun %s arg %d: sort %s, want %s", f.Name, i, v.S, f.ParamSorts[i])
			}
			ts = append(ts, v.T)
		}
		_, g := w.specSort(f.RetType, "")
		if len(ts) == 0 {
			return Val{T: f.SMTName, S: f.Ret, G: g}
		}
		return Val{T: "(" + f.SMTName + " " + strings.Join(ts, " ") + ")", S: f.Ret, G: g}
	}
	e.fail("unknown function %s", x.Fn)
	return Val{}
}

func (w *World) resolveSpecFun(f *SpecFun) {
	if f.Ret != "" {
		return
	}
	for _, b := range f.Params {
		s, _ := w.specSort(b.Type, "")
		f.ParamSorts = append(f.ParamSorts, s)
	}
	f.Ret, _ = w.specSort(f.RetType, "")
}

func hasPrefixAt(s, i, lit string) string {
	parts := []string{"(<= 0 " + i + ")", fmt.Sprintf("(<= (+ %s %d) (slen %s))", i, len(lit), s)}
	for k := 0; k < len(lit); k++ {
		parts = append(parts, fmt.Sprintf("(= (sat %s (+ %s %d)) %d)", s, i, k, lit[k]))
	}
	return and(parts...)
}

func (g *Gen) cardFn(k Sort) string {
	n := "card_" + sanitize(k)
	g.extraDecl(n, "(declare-fun "+n+" ((Array "+k+" Bool)) Int)")
	return n
}

func (g *Gen) slcCatFn(s Sort) string {
	n := "slccat_" + sanitize(s)
	g.extraDecl(n, "(declare-fun "+n+" ("+s+" "+s+") "+s+")")
	return n
}

func exprString(x Expr) string {
	switch x := x.(type) {
	case EIdent:
		return x.Name
	case EInt:
		return fmt.Sprint(x.V)
	case EStr:
		return fmt.Sprintf("%q", x.V)
	case EBool:
		return fmt.Sprint(x.V)
	case EUn:
		return x.Op + exprString(x.X)
	case EBin:
		return "(" + exprString(x.L) + " " + x.Op + " " + exprString(x.R) + ")"
	case ECall:
		var as []string
		for _, a := range x.Args {
			as = append(as, exprString(a))
		}
		return x.Fn + "(" + strings.Join(as, ", ") + ")"
	case ESel:
		return exprString(x.X) + "." + x.Name
	case EIndex:
		return exprString(x.X) + "[" + exprString(x.I) + "]"
	case ESlice:
		lo, hi := "", ""
		if x.Lo != nil {
			lo = exprString(x.Lo)
		}
		if x.Hi != nil {
			hi = exprString(x.Hi)
		}
		return exprString(x.X) + "[" + lo + ":" + hi + "]"
	case EOld:
		return "old(" + exprString(x.X) + ")"
	case EQuant:
		return "quant(...)"
	case EIte:
		return "(" + exprString(x.C) + " ? " + exprString(x.A) + " : " + exprString(x.B) + ")"
	}
	return "?"
}

// mgetFn: map lookup on a mathematical map value (zero value for absent keys), as an
// uninterpreted function with a defining axiom so that it can appear in triggers.
func (g *Gen) mgetFn(ks, vs Sort) string {
	n := "mget_" + sanitize(ks) + "_" + sanitize(vs)
	g.extraDecl(n, "(declare-fun "+n+" ((MapV "+ks+" "+vs+") "+ks+") "+vs+")\n(assert (forall ((m (MapV "+ks+" "+vs+")) (k "+ks+")) (! (= ("+n+" m k) (ite (select (map_dom m) k) (select (map_val m) k) "+g.w.zeroSort(vs)+")) :pattern (("+n+" m k)))))")
	return n
}

// typeArgString: a type argument of typeIs/unbox is either a (qualified) name or, for types the
// expression grammar cannot spell (gomap[string]string), a string literal.
func typeArgString(e Expr) string {
	if s, ok := e.(EStr); ok {
		return s.V
	}
	return exprString(e)
}
