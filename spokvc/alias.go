package main

// Rename recovery. Contracts name parameters and local variables of the function they are
// attached to by their source names. When a name no longer exists in the function (the variable
// was renamed), the contract is re-bound: an unknown contract identifier may stand for a source
// variable of the function that the contract does not mention. Every candidate re-binding is
// type-checked by translating the whole contract under it; the re-binding with the fewest
// clauses that do not bind is kept, and the function is then verified as usual. This is sound
// in the sense that matters here: whatever re-binding is chosen, all obligations of the
// function (and of its callers, which read the contract under the same re-binding) still have
// to be discharged; a re-binding only ever chooses *which* proof is attempted. Re-bindings
// are reported in the evidence.

import (
	"fmt"
	"go/types"
	"regexp"
	"sort"
	"strings"

	"golang.org/x/tools/go/ssa"
)

var unknownIdentRe = regexp.MustCompile(`unknown identifier "([A-Za-z_][A-Za-z0-9_]*)"`)
var identTokRe = regexp.MustCompile(`[A-Za-z_][A-Za-z0-9_]*`)

// sourceVars lists the source-level variable names of fn (parameters, captured variables, locals).
func sourceVars(fn *ssa.Function) []string {
	seen := map[string]bool{}
	var out []string
	add := func(n string) {
		if n != "" && n != "_" && !seen[n] {
			seen[n] = true
			out = append(out, n)
		}
	}
	for _, p := range fn.Params {
		add(p.Name())
	}
	for _, fv := range fn.FreeVars {
		add(fv.Name())
	}
	for _, b := range fn.Blocks {
		for _, in := range b.Instrs {
			if d, ok := in.(*ssa.DebugRef); ok {
				if v, ok := d.Object().(*types.Var); ok && !v.IsField() && v.Pkg() == fn.Pkg.Pkg && fn.Pos() <= v.Pos() {
					add(v.Name())
				}
			}
		}
	}
	return out
}

func unknownIdents(g *Gen) (names []string, nBinding int) {
	seen := map[string]bool{}
	for _, o := range g.obls {
		if o.Kind != "binding" {
			continue
		}
		nBinding++
		for _, m := range unknownIdentRe.FindAllStringSubmatch(o.Detail+" "+o.Src, -1) {
			if !seen[m[1]] {
				seen[m[1]] = true
				names = append(names, m[1])
			}
		}
	}
	sort.Strings(names)
	return
}

func (w *World) resetAnchors(key string) {
	if s := w.funcSpecs[key]; s != nil {
		for _, an := range s.Anchors {
			an.bound = false
		}
	}
}

// recoverRenames computes w.aliases[key] for one function under contract (no solver involved).
func (w *World) recoverRenames(key string) {
	fn := w.prog.funcs[key]
	spec := w.funcSpecs[key]
	if fn == nil || fn.Blocks == nil || spec == nil || spec.Assumed || spec.Trusted != "" {
		return
	}
	// fast path: every identifier of the contract text that could denote a variable is known
	vars := sourceVars(fn)
	isVar := map[string]bool{}
	for _, v := range vars {
		isVar[v] = true
	}
	mentioned := map[string]bool{}
	for _, t := range identTokRe.FindAllString(spec.Text, -1) {
		mentioned[t] = true
	}
	var fresh []string // source variables the contract does not mention
	for _, v := range vars {
		if !mentioned[v] {
			fresh = append(fresh, v)
		}
	}
	if len(fresh) == 0 {
		return
	}
	g := w.verifyFunc(key)
	unk, best := unknownIdents(g)
	if len(unk) == 0 {
		return
	}
	alias := map[string]string{}
	used := map[string]bool{}
	for round := 0; round < 6 && len(unk) > 0; round++ {
		x := unk[0]
		choice := ""
		for _, c := range fresh {
			if used[c] {
				continue
			}
			alias[x] = c
			w.aliases[key] = alias
			g2 := w.verifyFunc(key)
			_, n := unknownIdents(g2)
			if n < best || n == best && choice != "" && !mentioned[c] && mentioned[choice] {
				best, choice = n, c
			}
		}
		if choice == "" {
			delete(alias, x)
			break
		}
		alias[x] = choice
		used[choice] = true
		w.aliases[key] = alias
		g2 := w.verifyFunc(key)
		unk, _ = unknownIdents(g2)
		// names that could not be re-bound stay unknown: stop when no progress is possible
		var rest []string
		for _, u := range unk {
			if _, done := alias[u]; !done {
				rest = append(rest, u)
			}
		}
		unk = rest
	}
	if len(alias) == 0 {
		delete(w.aliases, key)
		return
	}
	w.aliases[key] = alias
	var parts []string
	for k, v := range alias {
		parts = append(parts, k+"→"+v)
	}
	sort.Strings(parts)
	w.aliasNotes = append(w.aliasNotes, fmt.Sprintf("%s: contract names re-bound to renamed source variables (%s)", key, strings.Join(parts, ", ")))
}

// verifyAll generates the obligations of every key; when a contract names variables that no
// longer exist, the renames are recovered first and everything is generated again, so that
// callers read a callee's contract under the same re-binding as the callee's own verification.
func (w *World) verifyAll(keys []string) map[string]*Gen {
	if w.aliases == nil {
		w.aliases = map[string]map[string]string{}
	}
	gens := map[string]*Gen{}
	for _, k := range keys {
		gens[k] = w.verifyFunc(k)
	}
	renamed := false
	for _, k := range keys {
		if unk, _ := unknownIdents(gens[k]); len(unk) > 0 {
			w.recoverRenames(k)
			if w.aliases[k] != nil {
				renamed = true
			}
		}
	}
	if renamed {
		for _, k := range keys {
			gens[k] = w.verifyFunc(k)
		}
	}
	return gens
}
