package main

import (
	"bytes"
	"context"
	"fmt"
	"os"
	"os/exec"
	"path/filepath"
	"strings"
	"sync"
	"sync/atomic"
	"time"
)

var axiomCache struct {
	done  bool
	text  []string
	decls []string
}

func (w *World) axiomText() (decls []string, axs []string) {
	if axiomCache.done {
		return axiomCache.decls, axiomCache.text
	}
	g := newGen(w, nil, nil)
	for _, ax := range w.axioms {
		func() {
			defer func() {
				if r := recover(); r != nil {
					if se, ok := r.(specErr); ok {
						fmt.Fprintf(os.Stderr, "axiom %s does not bind: %s\n", ax.Name, string(se))
						axiomCache.text = append(axiomCache.text, "false ; broken axiom "+ax.Name)
						return
					}
					panic(r)
				}
			}()
			env := &Env{g: g, vars: map[string]Val{}, st: State{}, pkg: ""}
			v := env.tr(ax.E)
			axiomCache.text = append(axiomCache.text, v.T)
		}()
	}
	axiomCache.decls = g.decls
	axiomCache.done = true
	return axiomCache.decls, axiomCache.text
}

func (o *Obligation) query(w *World) string {
	g := o.gen
	var b strings.Builder
	b.WriteString("(set-logic ALL)\n")
	b.WriteString(w.prelude(nil))
	ad, ax := w.axiomText()
	seen := map[string]bool{}
	for _, d := range ad {
		b.WriteString(d + "\n")
		seen[d] = true
	}
	for _, d := range g.decls[:o.NDecls] {
		if seen[d] {
			continue
		}
		b.WriteString(d + "\n")
	}
	for _, a := range ax {
		b.WriteString("(assert " + a + ")\n")
	}
	for _, f := range g.facts[:o.NFacts] {
		b.WriteString("(assert " + f + ")\n")
	}
	b.WriteString("(assert " + o.Reach + ")\n")
	b.WriteString("(assert " + not(o.Goal) + ")\n")
	b.WriteString("(check-sat)\n")
	return b.String()
}

type solverSpec struct {
	name string
	args func(file string, timeout int) []string
}

var solvers = []solverSpec{
	{"z3-new", func(f string, t int) []string {
		return []string{"z3-new", fmt.Sprintf("-T:%d", t), "smt.mbqi=false", "model=true", f}
	}},
	{"z3", func(f string, t int) []string {
		return []string{"z3", fmt.Sprintf("-T:%d", t), "smt.mbqi=false", f}
	}},
	{"cvc5", func(f string, t int) []string {
		return []string{"cvc5", fmt.Sprintf("--tlimit=%d", t*1000), "--produce-models", f}
	}},
}

type solveResult struct {
	status string // unsat, sat, unknown, timeout, error
	solver string
	time   float64
	out    string
}

func runSolver(ctx context.Context, s solverSpec, file string, timeout int) solveResult {
	start := time.Now()
	args := s.args(file, timeout)
	cctx, cancel := context.WithTimeout(ctx, time.Duration(timeout+2)*time.Second)
	defer cancel()
	cmd := exec.CommandContext(cctx, args[0], args[1:]...)
	var out bytes.Buffer
	cmd.Stdout = &out
	cmd.Stderr = &out
	_ = cmd.Run()
	el := time.Since(start).Seconds()
	text := out.String()
	first := strings.TrimSpace(strings.SplitN(text, "\n", 2)[0])
	st := "error"
	switch {
	case first == "unsat":
		st = "unsat"
	case first == "sat":
		st = "sat"
	case first == "unknown":
		st = "unknown"
	case first == "timeout" || strings.Contains(text, "timeout") || cctx.Err() != nil:
		st = "timeout"
	}
	return solveResult{status: st, solver: s.name, time: el, out: text}
}

// discharge races the solvers on one obligation.
func (o *Obligation) discharge(w *World, dir string, timeout int, all bool) {
	if !o.Smoke && (o.Goal == "true" || o.Reach == "false") {
		o.Status = "discharged"
		o.Solver = "syntactic"
		return
	}
	if o.Smoke {
		o.dischargeSmoke(w, dir)
		return
	}
	if (o.Kind == "binding" || o.Kind == "subset") && o.Goal == "false" {
		o.Status = "failed"
		o.Detail = "not a solver question: the contract does not bind to the code / the code left the verified subset"
		return
	}
	file := filepath.Join(dir, sanitize(o.Name)+".smt2")
	q := o.query(w)
	if err := os.WriteFile(file, []byte(q), 0o644); err != nil {
		o.Status = "error"
		o.Detail = err.Error()
		return
	}
	ctx, cancel := context.WithCancel(context.Background())
	defer cancel()
	ch := make(chan solveResult, len(solvers))
	var wg sync.WaitGroup
	for _, s := range solvers {
		wg.Add(1)
		go func(s solverSpec) {
			defer wg.Done()
			ch <- runSolver(ctx, s, file, timeout)
		}(s)
	}
	go func() { wg.Wait(); close(ch) }()
	var results []solveResult
	for r := range ch {
		results = append(results, r)
		if r.status == "unsat" && !all {
			o.Status = "discharged"
			o.Solver = r.solver
			o.Time = r.time
			cancel()
			if os.Getenv("SPOKVC_KEEPALL") == "" {
				os.Remove(file)
			}
			return
		}
		if r.status == "sat" && !all {
			// a definite countermodel (only possible when no quantifier got in the way)
			break
		}
	}
	cancel()
	var details []string
	nUnsat, nSat := 0, 0
	for _, r := range results {
		details = append(details, fmt.Sprintf("%s:%s(%.2fs)", r.solver, r.status, r.time))
		if r.status == "unsat" {
			nUnsat++
			o.Solver = r.solver
			o.Time = r.time
		}
		if r.status == "sat" {
			nSat++
		}
	}
	o.Detail = strings.Join(details, " ")
	if all && nUnsat > 0 && nSat == 0 {
		o.Status = "discharged"
		if os.Getenv("SPOKVC_KEEPALL") == "" {
			os.Remove(file)
		}
		return
	}
	if all && nUnsat > 0 && nSat > 0 {
		o.Status = "failed"
		o.Detail += " SOLVERS DISAGREE"
	} else {
		o.Status = "failed"
	}
	for _, r := range results {
		if r.status == "sat" || r.status == "unknown" {
			o.Model = r.out
			if len(o.Model) > 6000 {
				o.Model = o.Model[:6000] + "\n...(truncated)"
			}
			if r.status == "sat" {
				break
			}
		}
	}
	// fetch a candidate model from z3-new for the replay file
	mfile := file + ".model.smt2"
	os.WriteFile(mfile, []byte(q+"(get-model)\n"), 0o644)
	r := runSolver(context.Background(), solvers[0], mfile, timeout)
	if r.status == "sat" || r.status == "unknown" {
		o.Model = r.out
		if len(o.Model) > 8000 {
			o.Model = o.Model[:8000] + "\n...(truncated)"
		}
	}
	os.Remove(mfile)
}

// retryFailed: solver timeouts are not refutations. Before an obligation is reported, it gets a
// second attempt with three times the time limit (keeps alarms on the unchanged tree at zero when a
// query is merely slow; costs time only on trees where something does fail).
func retryFailed(w *World, obls []*Obligation, dir string, timeout int, all bool, par int) {
	var again []*Obligation
	for _, o := range obls {
		if !o.Smoke && o.Status == "failed" && !strings.Contains(o.Detail, ":sat(") && o.Kind != "binding" && o.Kind != "subset" && o.Goal != "false" {
			again = append(again, o)
		}
	}
	if len(again) == 0 || len(again) > 40 || os.Getenv("SPOKVC_SELFTEST") != "" {
		// SPOKVC_SELFTEST: the must-fail corpus only asks whether an obligation fails; the retry
		// and the witness search (minutes per seeded change) are skipped there
		return
	}
	sem := make(chan struct{}, par)
	var wg sync.WaitGroup
	for _, o := range again {
		wg.Add(1)
		sem <- struct{}{}
		go func(o *Obligation) {
			defer wg.Done()
			defer func() { <-sem }()
			first := o.Detail
			o.discharge(w, dir, timeout*3, all)
			if o.Status != "discharged" {
				o.Detail = first + " | retry x3: " + o.Detail
			} else {
				o.Detail = "discharged on retry with a longer time limit (first attempt: " + first + ")"
			}
		}(o)
	}
	wg.Wait()
}

// dischargeAll runs obligations on a worker pool.
func dischargeAll(w *World, obls []*Obligation, dir string, timeout int, all bool, par int) {
	os.MkdirAll(dir, 0o755)
	// make sure prelude-dependent registrations are complete before any query is printed
	w.axiomText()
	// pre-render queries sequentially? queries are rendered inside discharge; World is read-only by now
	// but sortOf may register lazily; rendering is done under a lock.
	sem := make(chan struct{}, par)
	var wg sync.WaitGroup
	// SPOKVC_SELFTEST (the must-fail corpus): the question is only whether some obligation fails, so
	// once three have failed the rest is not attempted (they are reported as not attempted, never
	// as discharged). Never used for evidence.
	failFast := os.Getenv("SPOKVC_SELFTEST") != ""
	var nFailed int32
	for _, o := range obls {
		if failFast && atomic.LoadInt32(&nFailed) >= 3 {
			if !o.Smoke {
				o.Status = "skipped"
				o.Detail = "not attempted (selftest fail-fast)"
			} else {
				o.Status = "discharged"
				o.Solver = "smoke(not attempted, selftest fail-fast)"
			}
			continue
		}
		wg.Add(1)
		sem <- struct{}{}
		go func(o *Obligation) {
			defer wg.Done()
			defer func() { <-sem }()
			o.discharge(w, dir, timeout, all)
			if !o.Smoke && o.Status != "discharged" {
				atomic.AddInt32(&nFailed, 1)
			}
		}(o)
	}
	wg.Wait()
	retryFailed(w, obls, dir, timeout, all, par)
	// vacuity is a per-function verdict: a function whose contract admits at least one reachable
	// exit is not vacuous; exits that are unreachable under the contracts (dead error handling)
	// are recorded but do not fail the check
	reachable := map[string]bool{}
	for _, o := range obls {
		if o.Smoke && o.Status == "discharged" {
			reachable[o.Func] = true
		}
	}
	for _, o := range obls {
		if o.Smoke && o.Status != "discharged" && reachable[o.Func] {
			o.Status = "discharged"
			o.Solver = "smoke(dead exit: unreachable under the contracts; another exit of the function is reachable)"
		}
	}
}

// dischargeSmoke: the query (facts /\ reach) must be satisfiable, i.e. NOT refutable.
// With quantified axioms solvers answer unknown/timeout rather than sat; anything but
// unsat counts as "reachable as far as the solvers can tell".
func (o *Obligation) dischargeSmoke(w *World, dir string) {
	if o.Reach == "false" {
		o.Status = "failed"
		o.Detail = "exit syntactically unreachable"
		return
	}
	file := filepath.Join(dir, sanitize(o.Name)+".smt2")
	if err := os.WriteFile(file, []byte(o.query(w)), 0o644); err != nil {
		o.Status = "error"
		return
	}
	defer os.Remove(file)
	ctx, cancel := context.WithCancel(context.Background())
	defer cancel()
	ch := make(chan solveResult, 2)
	for _, s := range solvers[:2] {
		go func(s solverSpec) { ch <- runSolver(ctx, s, file, smokeTimeout) }(s)
	}
	var ds []string
	for i := 0; i < 2; i++ {
		r := <-ch
		ds = append(ds, fmt.Sprintf("%s:%s(%.2fs)", r.solver, r.status, r.time))
		if r.status == "unsat" {
			o.Status = "failed"
			o.Detail = "VACUOUS: assumptions are contradictory at this point: " + strings.Join(ds, " ")
			return
		}
		if r.status == "sat" {
			break
		}
	}
	o.Status = "discharged"
	o.Solver = "smoke(" + strings.Join(ds, " ") + ")"
}

var smokeTimeout = 2
