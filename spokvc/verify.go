package main

import (
	"fmt"
	"strconv"
	"go/token"
	"go/types"
	"os"
	"os/exec"
	"path/filepath"
	"sort"
	"strings"

	"golang.org/x/tools/go/ssa"
)

// effectiveSpec merges a functype contract into a function contract.
func (w *World) effectiveSpec(key string) *FuncSpec {
	spec := w.funcSpecs[key]
	if spec == nil || spec.Implement == "" {
		return spec
	}
	ft := w.funcSpecs["functype:"+spec.Implement]
	if ft == nil {
		return spec
	}
	m := *spec
	m.Requires = append(append([]Clause{}, ft.Requires...), spec.Requires...)
	m.Ensures = append(append([]Clause{}, ft.Ensures...), spec.Ensures...)
	m.Modifies = append(append([]string{}, ft.Modifies...), spec.Modifies...)
	m.HasMod = spec.HasMod || ft.HasMod
	if len(m.Props) == 0 {
		m.Props = ft.Props
	}
	return &m
}

// verifyFunc generates all obligations for one function under contract.
func (w *World) verifyFunc(key string) (g *Gen) {
	fn := w.prog.funcs[key]
	spec := w.effectiveSpec(key)
	w.resetAnchors(key)
	g = newGen(w, fn, spec)
	g.topKey = key
	if fn == nil {
		g.oblige("binding", key+"/binding/function", "true", "false", "contract names a function that does not exist in the working tree", spec.File, spec.Props)
		return g
	}
	if fn.Blocks == nil {
		g.oblige("binding", key+"/binding/nobody", "true", "false", "function has no body", spec.File, spec.Props)
		return g
	}
	defer func() {
		if r := recover(); r != nil {
			if se, ok := r.(specErr); ok {
				g.oblige("binding", key+"/binding/spec", "true", "false", "contract does not bind: "+string(se), spec.File, spec.Props)
				return
			}
			panic(r)
		}
	}()
	a := g.newAct(fn, 0)
	a.spec = spec
	st := State{}
	w.heapVars["$wm"] = "Int"
	g.fact("(>= " + g.stateGet(st, "$wm") + " 0)")
	var args []Val
	selfVars := map[string]Val{}
	for _, p := range fn.Params {
		v := a.freshVal(p.Type(), "p_"+p.Name())
		if pt, ok := p.Type().Underlying().(*types.Pointer); ok {
			if _, ok := pt.Elem().Underlying().(*types.Struct); ok {
				g.fact(not("(= " + v.T + " ref_nil)"))
				g.fact("(> " + v.T + " 0)")
				g.refs = append(g.refs, v.T)
			}
		}
		if v.S == "Ref" {
			w.heapVars["$wm"] = "Int"
			g.fact("(<= " + v.T + " " + g.stateGet(st, "$wm") + ")")
		}
		args = append(args, v)
	}
	if spec.Implement != "" {
		selfVars["self"] = Val{T: smtInt(int64(w.funcID(key))), S: "Int", G: fn.Type()}
	}
	a.recvVars = selfVars
	// bind params for the requires
	for i, p := range fn.Params {
		a.params[p.Name()] = args[i]
	}
	// captured variables of a closure are visible to its contract (also in requires / ensures)
	// under their source name, read through the cell they live in
	for _, fv := range fn.FreeVars {
		s := g.w.sortOf(fv.Type())
		v := Val{T: g.fresh("fv_"+fv.Name(), s), S: s, G: fv.Type()}
		if s == "Ref" {
			g.fact("(> " + v.T + " 0)")
			g.fact("(<= " + v.T + " " + g.stateGet(st, "$wm") + ")")
			g.refs = append(g.refs, v.T)
		}
		a.vals[fv] = v
		pv := v
		pv.S = "$addr"
		a.params[fv.Name()] = pv
	}
	a.entrySt = st.clone()
	env := a.env(st, nil, nil)
	env.old = st
	for _, c := range spec.Requires {
		g.fact(a.trClause(env, c, "requires"))
	}
	for _, u := range spec.Uses {
		a.applyUse(env, u, "true", key+"/entry")
	}
	a.computeMods()
	a.crashPoint(&blockCtx{reach: "true", st: st}, "entry", token.NoPos)
	if len(spec.EntryGhost) > 0 {
		ectx := &blockCtx{reach: "true", st: st}
		for _, gu := range spec.EntryGhost {
			a.ghostAssign(ectx, env, gu)
		}
	}
	a.run("true", st, args)
	// anchors that never bound
	for _, an := range spec.Anchors {
		if !an.bound {
			g.oblige("binding", fmt.Sprintf("%s/binding/at:%s#%d", key, an.Callee, an.Nth), "true", "false", "anchor does not match any call/send in the body", fmt.Sprintf("%s:%d", an.File, an.Line), spec.Props)
		}
	}
	// exits
	sort.SliceStable(a.exits, func(i, j int) bool { return a.exits[i].pos < a.exits[j].pos })
	for ei, ex := range a.exits {
		a.postAt(ex, ei)
	}
	for ei, ex := range a.exits {
		g.oblige("smoke", fmt.Sprintf("%s/smoke@ret%d", key, ei), ex.reach, "false", "exit is reachable under the contract's assumptions (vacuity check)", g.pos(ex.pos), spec.Props)
		g.obls[len(g.obls)-1].Smoke = true
	}
	if len(a.exits) == 0 {
		g.oblige("smoke", key+"/smoke/no-exit", "true", "false", "function has no reachable exit", "", spec.Props)
	}
	for _, p := range g.problems {
		g.oblige("subset", key+"/out-of-subset", "true", "false", p, "", spec.Props)
	}
	return g
}

// verifyLemma discharges a lemma declared "induction n": the statement (requires ==> ensures) is
// proved for n = 0 and, assuming it for some k >= 0 (other parameters fixed), for k+1. Only the
// prelude and the declared axioms are available.
func (w *World) verifyLemma(lm *SpecLemma) *Gen {
	key := "lemma." + lm.Name
	spec := &FuncSpec{Key: key, File: lm.File}
	g := newGen(w, nil, spec)
	g.topKey = key
	where := fmt.Sprintf("%s:%d", lm.File, lm.Line)
	defer func() {
		if r := recover(); r != nil {
			if se, ok := r.(specErr); ok {
				g.oblige("binding", key+"/binding/spec", "true", "false", "lemma does not bind: "+string(se), where, nil)
				return
			}
			panic(r)
		}
	}()
	base := map[string]Val{}
	found := false
	for _, p := range lm.Params {
		s, gt := w.specSort(p.Type, "")
		base[p.Name] = Val{T: g.fresh("lp_"+p.Name, s), S: s, G: gt}
		if p.Name == lm.Induct && s == "Int" {
			found = true
		}
	}
	if !found {
		panic(specErr("induction parameter " + lm.Induct + " is not an int parameter"))
	}
	stmt := func(nTerm string) (string, string) {
		vars := map[string]Val{}
		for k, v := range base {
			vars[k] = v
		}
		nv := base[lm.Induct]
		nv.T = nTerm
		vars[lm.Induct] = nv
		st := State{}
		le := &Env{g: g, vars: vars, st: st, old: st, pkg: ""}
		var rs, es []string
		for _, r := range lm.Requires {
			rs = append(rs, le.tr(r).T)
		}
		for _, e := range lm.Ensures {
			es = append(es, le.tr(e).T)
		}
		return and(rs...), and(es...)
	}
	// lemmas used inside the proof: instantiated (requires ==> ensures) with n := the given term
	useAt := func(nTerm string) {
		vars := map[string]Val{}
		for k, v := range base {
			vars[k] = v
		}
		nv := base[lm.Induct]
		nv.T = nTerm
		vars[lm.Induct] = nv
		st := State{}
		le := &Env{g: g, vars: vars, st: st, old: st, pkg: ""}
		for _, u := range lm.Uses {
			ul, ok := w.lemmas[u.Lemma]
			if !ok || len(ul.Params) != len(u.Args) {
				panic(specErr("use of unknown lemma / wrong arity: " + u.Lemma))
			}
			uv := map[string]Val{}
			for i, p := range ul.Params {
				uv[p.Name] = le.tr(u.Args[i])
			}
			ue := &Env{g: g, vars: uv, st: st, old: st, pkg: ""}
			var rs, es []string
			for _, r := range ul.Requires {
				rs = append(rs, ue.tr(r).T)
			}
			for _, e := range ul.Ensures {
				es = append(es, ue.tr(e).T)
			}
			g.fact(implies(and(rs...), and(es...)))
			if ul.Assumed {
				g.usedAssumed["lemma "+ul.Name] = true
			}
			g.usedLemmas[ul.Name] = true
		}
	}
	useAt("0")
	r0, e0 := stmt("0")
	g.oblige("lemma", key+"/base", "true", implies(r0, e0), lm.Src, where, nil)
	k := g.fresh("lk", "Int")
	g.fact("(>= " + k + " 0)")
	rk, ek := stmt(k)
	g.fact(implies(rk, ek))
	useAt(k)
	useAt("(+ " + k + " 1)")
	r1, e1 := stmt("(+ " + k + " 1)")
	g.oblige("lemma", key+"/step", "true", implies(r1, e1), lm.Src, where, nil)
	return g
}

func (a *Act) resultVars(results []Val) map[string]Val {
	rv := map[string]Val{}
	sig := a.fn.Signature
	for i, r := range results {
		rv[fmt.Sprintf("result%d", i)] = r
		if n := sig.Results().At(i).Name(); n != "" && n != "_" {
			rv[n] = r
		}
	}
	if len(results) > 0 {
		rv["result"] = results[0]
		last := results[len(results)-1]
		if last.S == "Iface" {
			if _, ok := rv["err"]; !ok {
				rv["err"] = last
			}
		}
		if len(results) == 2 && results[1].S == "Bool" {
			rv["ok"] = results[1]
		}
	}
	return rv
}

func (a *Act) postAt(ex exitPt, ei int) {
	g := a.g
	spec := a.spec
	env := a.env(ex.st, nil, nil)
	// coerce nil results to declared sorts
	sig := a.fn.Signature
	var rs []Val
	for i, r := range ex.results {
		rs = append(rs, a.coerce(r, g.w.sortOf(sig.Results().At(i).Type())))
		if rs[i].G == nil {
			rs[i].G = sig.Results().At(i).Type()
		}
	}
	for k, v := range a.resultVars(rs) {
		env.vars[k] = v
	}
	line := g.pos(ex.pos)
	for k, c := range spec.Ensures {
		t := a.trClause(env, c, "ensures")
		g.oblige("post", fmt.Sprintf("%s/post%d%s@ret%d", a.key, k, labelSuffix(c), ei), ex.reach, t, c.Src, line, a.clauseProps(c))
	}
	// frame
	if spec.HasMod || true {
		a.frameAt(ex, ei, env)
	}
}

// frameAt: every heap variable changed by the body must be covered by modifies.
func (a *Act) frameAt(ex exitPt, ei int, env *Env) {
	g := a.g
	spec := a.spec
	whole := map[string]bool{}
	precise := map[string][]string{}
	penv := a.env(a.entrySt, nil, nil)
	for k, v := range env.vars {
		penv.vars[k] = v
	}
	for _, m := range spec.Modifies {
		hv, obj, err := penv.resolveMod(m)
		if err != nil {
			g.oblige("binding", a.key+"/binding/modifies", "true", "false", "modifies clause does not bind: "+err.Error(), spec.File, spec.Props)
			continue
		}
		if obj == "" {
			whole[hv] = true
		} else {
			precise[hv] = append(precise[hv], obj)
		}
	}
	var hvs []string
	for hv := range ex.st {
		hvs = append(hvs, hv)
	}
	sort.Strings(hvs)
	for _, hv := range hvs {
		if whole[hv] || strings.HasPrefix(hv, "ITER") || hv == "$wm" || g.w.scratch[hv] || strings.HasSuffix(hv, "_init_guard") {
			continue
		}
		cur := ex.st[hv]
		old := g.stateGet(a.entrySt, hv)
		if cur == old {
			continue
		}
		s := g.w.heapVars[hv]
		var goal string
		if strings.HasPrefix(hv, "Cell_") {
			continue // cells are only created by local allocations (locals, varargs arrays)
		}
		if strings.HasPrefix(s, "(Array Ref ") {
			// all refs that existed at entry, other than precise modifies targets, keep their value
			r := g.fresh("frame_r", "Ref")
			ex2 := []string{"(<= " + r + " " + g.stateGet(a.entrySt, "$wm") + ")"}
			for _, o := range precise[hv] {
				ex2 = append(ex2, not("(= "+r+" "+o+")"))
			}
			goal = implies(and(ex2...), "(= (select "+cur+" "+r+") (select "+old+" "+r+"))")
		} else {
			goal = "(= " + cur + " " + old + ")"
		}
		g.oblige("frame", fmt.Sprintf("%s/frame:%s@ret%d", a.key, hv, ei), ex.reach, goal, "modifies clause covers "+hv, g.pos(ex.pos), spec.Props)
	}
}

// ---------------------------------------------------------------------------
// models of a few std / generated functions

var tokenStrings map[int64]string

// evalTokenStrings runs the real token.Type.String method of the working tree.
func evalTokenStrings() (map[int64]string, error) {
	dir, err := os.MkdirTemp("", "spokvc-tok-")
	if err != nil {
		return nil, err
	}
	defer os.RemoveAll(dir)
	gomod := "module tokprobe\n\ngo 1.23\n\nrequire github.com/FollowTheProcess/spok v0.0.0\n\nreplace github.com/FollowTheProcess/spok => /repo\n"
	if err := os.WriteFile(filepath.Join(dir, "go.mod"), []byte(gomod), 0o644); err != nil {
		return nil, err
	}
	if sum, err := os.ReadFile("/repo/go.sum"); err == nil {
		os.WriteFile(filepath.Join(dir, "go.sum"), sum, 0o644)
	}
	src := "package main\n\nimport (\n\t\"fmt\"\n\t\"github.com/FollowTheProcess/spok/token\"\n)\n\nfunc main() {\n\tfor i := -1; i < 40; i++ {\n\t\tfmt.Printf(\"%d %q\\n\", i, token.Type(i).String())\n\t}\n}\n"
	if err := os.WriteFile(filepath.Join(dir, "main.go"), []byte(src), 0o644); err != nil {
		return nil, err
	}
	cmd := exec.Command("go", "run", ".")
	cmd.Dir = dir
	cmd.Env = append(os.Environ(), "GOFLAGS=-mod=mod", "GOPROXY=off", "GOSUMDB=off", "GOTOOLCHAIN=local")
	out, err := cmd.CombinedOutput()
	if err != nil {
		return nil, fmt.Errorf("token probe: %v: %s", err, out)
	}
	m := map[int64]string{}
	for _, l := range strings.Split(string(out), "\n") {
		var i int64
		var s string
		if n, _ := fmt.Sscanf(l, "%d %q", &i, &s); n == 2 {
			m[i] = s
		}
	}
	return m, nil
}

func (a *Act) modelCall(ctx *blockCtx, key string, callee *ssa.Function, c *ssa.CallCommon, args []Val, resT types.Type, pos token.Pos) (Val, bool) {
	v, _, ok := a.modelCall2(ctx, key, callee, c, args, resT, pos)
	return v, ok
}

func (a *Act) modelCall2(ctx *blockCtx, key string, callee *ssa.Function, c *ssa.CallCommon, args []Val, resT types.Type, pos token.Pos) (Val, []Val, bool) {
	g := a.g
	switch key {
	case "token.(Type).String":
		if n, err := strconv.ParseInt(args[0].T, 10, 64); err == nil && tokenStrings != nil {
			if s, ok := tokenStrings[n]; ok {
				g.usedAssumed["token.(Type).String evaluated by running the real method (go run) at generation time"] = true
				return Val{T: g.w.lit(s), S: "Str", G: resT}, nil, true
			}
		}
	case "encoding/json.Unmarshal":
		// model for Unmarshal(data, &m) where m is a nil map[string]string living in a known location
		if bv, ok := g.boxed[args[1].T]; ok && bv.L != nil {
			if mt, ok := bv.L.ElemG.Underlying().(*types.Map); ok && g.w.sortOf(mt.Key()) == "Str" && g.w.sortOf(mt.Elem()) == "Str" {
				g.usedAssumed["encoding/json.Unmarshal into a nil map[string]string (model: succeeds iff the data is a JSON object of strings; then the map holds exactly its members)"] = true
				content := "(" + g.strofFn() + " " + args[0].T + ")"
				cur := g.load(ctx.st, bv)
				g.oblige("model", a.key+"/model/json.Unmarshal-target-nil", ctx.reach, "(= "+cur.T+" ref_nil)", "Unmarshal model applies only to a nil target map", g.pos(pos), a.safetyProps())
				jv := g.w.specFuns["jsonValid"]
				jg := g.w.specFuns["jsonGet"]
				jh := g.w.specFuns["jsonHas"]
				if jv == nil || jg == nil || jh == nil {
					return Val{}, nil, false
				}
				okc := "(" + jv.SMTName + " " + content + ")"
				hv, _, _ := g.w.mapHeap(mt)
				m := a.freshRef(ctx, "unmarshalled")
				mv := g.fresh("jsonmap", "(MapV Str Str)")
				qk := g.freshName("qk")
				g.fact("(forall ((" + qk + " Str)) (! (and (= (select (map_dom " + mv + ") " + qk + ") (" + jh.SMTName + " " + content + " " + qk + ")) (= (select (map_val " + mv + ") " + qk + ") (" + jg.SMTName + " " + content + " " + qk + "))) :pattern ((select (map_dom " + mv + ") " + qk + ")) :pattern ((select (map_val " + mv + ") " + qk + "))))")
				// success branch effects, guarded by okc
				okB := g.fresh("unmarshal_ok", "Bool")
				g.fact("(= " + okB + " " + okc + ")")
				stOK := ctx.st.clone()
				stOK[hv] = "(store " + g.stateGet(ctx.st, hv) + " " + m + " " + mv + ")"
				sub := &blockCtx{reach: ctx.reach, st: stOK}
				a.store(sub, bv, Val{T: m, S: "Ref", G: bv.L.ElemG}, pos)
				ctx.st = g.mergeStates([]edge{{cond: okB, st: sub.st}, {cond: not(okB), st: ctx.st}}, "unmarshal")
				errv := a.freshVal(resT, "unmarshal_err")
				g.fact("(= (= " + errv.T + " iface_nil) " + okB + ")")
				return errv, nil, true
			}
		}
	case "encoding/json.Marshal":
		if bv, ok := g.boxed[args[0].T]; ok && bv.G != nil && strings.HasSuffix(bv.G.String(), "task.Results") {
			// the JSON report (C20): marshalling a task.Results value never fails (strings, ints and
			// bools only) and yields resultsJSON of the slice: an assumed, injective-by-convention
			// encoding driven by the struct tags task/results/skipped and cmd/stdout/stderr/status
			if rj := g.w.specFuns["resultsJSON"]; rj != nil {
				g.usedAssumed["encoding/json.Marshal of task.Results never fails and yields resultsJSON(results) (field tags task, results, skipped / cmd, stdout, stderr, status, in slice order)"] = true
				bs := a.freshVal(types.NewSlice(types.Typ[types.Byte]), "marshalled")
				errv := Val{T: "iface_nil", S: "Iface", G: types.Universe.Lookup("error").Type()}
				g.fact("(= (" + g.strofFn() + " " + bs.T + ") (" + rj.SMTName + " " + bv.T + "))")
				return Val{}, []Val{bs, errv}, true
			}
		}
		if bv, ok := g.boxed[args[0].T]; ok && bv.G != nil {
			if mt, ok := bv.G.Underlying().(*types.Map); ok && g.w.sortOf(mt.Key()) == "Str" && g.w.sortOf(mt.Elem()) == "Str" {
				mm := g.w.specFuns["marshalMap"]
				if mm == nil {
					return Val{}, nil, false
				}
				g.usedAssumed["encoding/json.Marshal of a map[string]string never fails and yields marshalMap of the map value"] = true
				bs := a.freshVal(types.NewSlice(types.Typ[types.Byte]), "marshalled")
				errv := Val{T: "iface_nil", S: "Iface", G: types.Universe.Lookup("error").Type()}
				g.fact("(= (" + g.strofFn() + " " + bs.T + ") (" + mm.SMTName + " " + g.mapvalTerm(ctx.st, bv, mt) + "))")
				return Val{}, []Val{bs, errv}, true
			}
		}
	case "sort.Stable":
		// sort.Stable(sortByteSlices(x)) permutes the elements of x in place. Slices are values in this
		// model, so the SSA value the slice came from is re-bound to the sorted slice (sound as long as
		// no other alias of the backing array is used afterwards: checked syntactically below).
		if bv, ok := g.boxed[args[0].T]; ok && bv.S == "(Slc (Slc Int))" {
			sf := g.w.specFuns["sortLex"]
			if sf == nil {
				return Val{}, nil, false
			}
			root := c.Args[0]
			for {
				switch r := root.(type) {
				case *ssa.MakeInterface:
					root = r.X
					continue
				case *ssa.ChangeType:
					root = r.X
					continue
				}
				break
			}
			sorted := Val{T: "(" + sf.SMTName + " " + bv.T + ")", S: bv.S, G: root.Type()}
			nm := g.fresh("sorted", sorted.S)
			g.fact("(= " + nm + " " + sorted.T + ")")
			sorted.T = nm
			a.rebinds = append(a.rebinds, rebind{root: root, val: sorted, blk: a.curBlk, idx: a.curIdx})
			g.usedAssumed["sort.Stable with a strict weak order whose equivalence is equality returns the sorted permutation (sortLex); Less of sortByteSlices is bytes.Compare == -1"] = true
			return Val{T: "0", S: "Int"}, nil, true
		}
	case "sort.Strings":
		// sort.Strings(x) sorts x in place: as for sort.Stable, the SSA value of the slice is re-bound
		// to sortStrs(x) from the call on (spec function with the assumed sortedness / permutation axioms)
		if sf := g.w.specFuns["sortStrs"]; sf != nil && args[0].S == "(Slc Str)" {
			root := c.Args[0]
			sorted := Val{T: "(" + sf.SMTName + " " + args[0].T + ")", S: args[0].S, G: root.Type()}
			nm := g.fresh("sorted", sorted.S)
			g.fact("(= " + nm + " " + sorted.T + ")")
			sorted.T = nm
			a.rebinds = append(a.rebinds, rebind{root: root, val: sorted, blk: a.curBlk, idx: a.curIdx})
			g.usedAssumed["sort.Strings returns the sorted permutation (sortStrs: ascending in byte-wise lexicographic order strLe, a permutation of its argument); modelled by re-binding the SSA value of the slice"] = true
			return Val{T: "0", S: "Int"}, nil, true
		}
	case "strings.ReplaceAll":
		// strings.ReplaceAll(s, `"`, ""): the string without its quote characters (spec function
		// stripQuotes, uninterpreted; assumed meaning of ReplaceAll for these literal arguments)
		if o, ok := g.litOf(args[1].T); ok && o == "\"" {
			if n, ok := g.litOf(args[2].T); ok && n == "" {
				if sf := g.w.specFuns["stripQuotes"]; sf != nil {
					g.usedAssumed["strings.ReplaceAll(s, `\"`, \"\") == stripQuotes(s)"] = true
					return Val{T: "(" + sf.SMTName + " " + args[0].T + ")", S: "Str", G: types.Typ[types.String]}, nil, true
				}
			}
		}
	case "strings.HasPrefix", "strings.HasSuffix":
		if lit, ok := g.litOf(args[1].T); ok {
			g.usedAssumed[key+" (built-in model for literal argument)"] = true
			if key == "strings.HasPrefix" {
				return boolT(hasPrefixAt(args[0].T, "0", lit)), nil, true
			}
			return boolT(hasPrefixAt(args[0].T, fmt.Sprintf("(- (slen %s) %d)", args[0].T, len(lit)), lit)), nil, true
		}
	}
	return Val{}, nil, false
}

func (g *Gen) litOf(term string) (string, bool) {
	if term == "str_empty" {
		return "", true
	}
	for s, n := range g.w.lits {
		if n == term {
			return s, true
		}
	}
	return "", false
}

// computeMods evaluates the modifies clause in the entry state (entries that mention
// results are resolved at the exits only).
func (a *Act) computeMods() {
	a.modWhole = map[string]bool{}
	a.modObjs = map[string][]string{}
	penv := a.env(a.entrySt, nil, nil)
	for _, m := range a.spec.Modifies {
		hv, obj, err := penv.resolveMod(m)
		if err != nil {
			continue
		}
		if obj == "" {
			a.modWhole[hv] = true
		} else {
			a.modObjs[hv] = append(a.modObjs[hv], obj)
		}
	}
}
