package main

// Structural side conditions checked on the SSA of the working tree.

import (
	"fmt"
	"go/token"
	"go/types"
	"sort"
	"strings"

	"golang.org/x/tools/go/ssa"
)

type structResult struct {
	Name   string
	OK     bool
	Detail string
}

// structDeterminism: the functions of the given packages contain no source of
// nondeterminism (goroutines, select, channel receive, map iteration, clocks, random numbers,
// environment), except the listed ones.
func (w *World) structDeterminism(pkgs []string, allow map[string]string) []structResult {
	var out []structResult
	var keys []string
	for k, f := range w.prog.funcs {
		if f.Blocks == nil {
			continue
		}
		p := strings.SplitN(k, ".", 2)[0]
		for _, want := range pkgs {
			if p == want {
				keys = append(keys, k)
			}
		}
	}
	sort.Strings(keys)
	for _, k := range keys {
		f := w.prog.funcs[k]
		var bad []string
		for _, b := range f.Blocks {
			for _, ins := range b.Instrs {
				what := ""
				switch x := ins.(type) {
				case *ssa.Go:
					what = "go statement"
				case *ssa.Select:
					what = "select"
				case *ssa.UnOp:
					if x.Op == token.ARROW {
						what = "channel receive"
					}
				case *ssa.Range:
					if _, ok := x.X.Type().Underlying().(*types.Map); ok {
						what = "map iteration"
					}
				case *ssa.Call:
					if callee := x.Call.StaticCallee(); callee != nil && callee.Pkg != nil {
						switch callee.Pkg.Pkg.Path() {
						case "time", "math/rand", "math/rand/v2", "crypto/rand", "os", "runtime":
							what = "call to " + callee.Pkg.Pkg.Path() + "." + callee.Name()
						}
					}
				}
				if what != "" {
					if why, ok := allow[k+":"+what]; ok {
						_ = why
						continue
					}
					bad = append(bad, what+" at "+w.prog.prog.Fset.Position(ins.Pos()).String())
				}
			}
		}
		out = append(out, structResult{Name: "determinism:" + k, OK: len(bad) == 0, Detail: strings.Join(bad, "; ")})
	}
	return out
}

func (w *World) runStructural(spec string) []structResult {
	// spec: "determinism:lexer,parser,ast,token"
	parts := strings.SplitN(spec, ":", 2)
	switch parts[0] {
	case "determinism":
		allow := map[string]string{
			"lexer.New:go statement":                      "the lexer goroutine: sequentialisation assumption",
			"lexer.(*Lexer).NextToken:channel receive":    "the single consumer of the token channel: sequentialisation assumption",
		}
		return w.structDeterminism(strings.Split(parts[1], ","), allow)
	case "pool":
		return w.structPool()
	case "fswriters":
		return w.structFSWriters()
	case "flags":
		return w.structFlags(parts[1])
	case "stdoutwriters":
		return w.structStdoutWriters(strings.Split(parts[1], ","))
	case "globalstore":
		// globalstore:cache.Path=cache.init  (the global is only stored to by that function)
		kv := strings.SplitN(parts[1], "=", 2)
		return w.structGlobalStore(kv[0], kv[1])
	}
	return []structResult{{Name: spec, OK: false, Detail: fmt.Sprintf("unknown structural check %q", spec)}}
}

// structPool: side conditions of the worker-pool meta-lemma (C04/C18), checked on the SSA:
//  (1) every `go worker(...)` in Concurrent.Hash is preceded in its block by wg.Add(1) on the same WaitGroup;
//  (2) worker defers wg.Done() before anything else;
//  (3) in the closer closure, close(results) is dominated by the call to wg.Wait();
//  (4) Hash ranges over (receives from) the results channel only, and worker ranges over the jobs channel.
func (w *World) structPool() []structResult {
	var out []structResult
	hashFn := w.prog.funcs["hash.(Concurrent).Hash"]
	worker := w.prog.funcs["hash.worker"]
	closer := w.prog.funcs["hash.(Concurrent).Hash$2"]
	if hashFn == nil || worker == nil || closer == nil {
		return []structResult{{Name: "pool:functions-exist", OK: false, Detail: "hash.(Concurrent).Hash, hash.worker or the closer closure not found"}}
	}
	// (1)
	ok1, n1 := true, 0
	for _, b := range hashFn.Blocks {
		for i, ins := range b.Instrs {
			g, isGo := ins.(*ssa.Go)
			if !isGo || g.Call.StaticCallee() != worker {
				continue
			}
			n1++
			found := false
			for j := i - 1; j >= 0; j-- {
				if c, isCall := b.Instrs[j].(*ssa.Call); isCall {
					if callee := c.Call.StaticCallee(); callee != nil && funcKey(callee) == "sync.(*WaitGroup).Add" {
						if k, isConst := c.Call.Args[1].(*ssa.Const); isConst && k.Int64() == 1 && c.Call.Args[0] == g.Call.Args[2] {
							found = true
						}
					}
					break
				}
			}
			if !found {
				ok1 = false
			}
		}
	}
	out = append(out, structResult{Name: "pool:add-before-go-worker", OK: ok1 && n1 > 0, Detail: fmt.Sprintf("%d go worker statements", n1)})
	// (2)
	ok2 := false
	if len(worker.Blocks) > 0 {
		for _, ins := range worker.Blocks[0].Instrs {
			if _, isDbg := ins.(*ssa.DebugRef); isDbg {
				continue
			}
			if d, isDefer := ins.(*ssa.Defer); isDefer {
				if callee := d.Call.StaticCallee(); callee != nil && funcKey(callee) == "sync.(*WaitGroup).Done" && d.Call.Args[0] == ssa.Value(worker.Params[2]) {
					ok2 = true
				}
			}
			break
		}
	}
	out = append(out, structResult{Name: "pool:worker-defers-done-first", OK: ok2})
	// (3)
	ok3 := false
	var waitBlk, closeBlk *ssa.BasicBlock
	waitIdx, closeIdx := -1, -1
	for _, b := range closer.Blocks {
		for i, ins := range b.Instrs {
			if c, isCall := ins.(*ssa.Call); isCall {
				if callee := c.Call.StaticCallee(); callee != nil && funcKey(callee) == "sync.(*WaitGroup).Wait" {
					waitBlk, waitIdx = b, i
				}
				if bi, isB := c.Call.Value.(*ssa.Builtin); isB && bi.Name() == "close" {
					closeBlk, closeIdx = b, i
				}
			}
		}
	}
	if waitBlk != nil && closeBlk != nil && (waitBlk == closeBlk && waitIdx < closeIdx || waitBlk != closeBlk && waitBlk.Dominates(closeBlk)) {
		ok3 = true
	}
	out = append(out, structResult{Name: "pool:results-closed-after-wait", OK: ok3})
	// (4) worker drains the jobs channel: it returns only when the range over the channel ends
	ok4, n4 := true, 0
	var bad4 []string
	for _, b := range worker.Blocks {
		if worker.Recover != nil && b == worker.Recover {
			continue
		}
		for _, ins := range b.Instrs {
			if _, isRet := ins.(*ssa.Return); isRet {
				n4++
				if b.Comment != "rangechan.done" {
					ok4 = false
					bad4 = append(bad4, "return outside the end of the range over the jobs channel at "+w.prog.prog.Fset.Position(ins.Pos()).String())
				}
			}
		}
	}
	out = append(out, structResult{Name: "pool:worker-drains-jobs", OK: ok4 && n4 > 0, Detail: strings.Join(bad4, "; ")})
	return out
}

// structFSWriters (C19): the ghost set fswrites is only as complete as the set of primitives that
// update it. Every call from non-test code of /repo into a file-system mutating primitive of the
// standard library must (a) go to a primitive whose assumed contract lists fswrites in its
// modifies clause and (b) be made by a function whose body is verified against a contract (so the
// call is charged to that function's frame).
func (w *World) structFSWriters() []structResult {
	mut := map[string]bool{}
	for _, n := range []string{"os.WriteFile", "os.Create", "os.OpenFile", "os.Remove", "os.RemoveAll", "os.Mkdir", "os.MkdirAll", "os.Rename",
		"os.Truncate", "os.Chmod", "os.Chown", "os.Lchown", "os.Symlink", "os.Link", "os.Chtimes", "os.CreateTemp", "os.MkdirTemp", "os.CopyFS",
		"os.(*File).Write", "os.(*File).WriteString", "os.(*File).WriteAt", "os.(*File).Truncate", "os.(*File).ReadFrom", "os.(*File).Chmod", "os.(*File).Chown",
		"io/ioutil.WriteFile", "io/ioutil.TempFile", "io/ioutil.TempDir", "os.(*Root).Create", "os.(*Root).OpenFile", "os.(*Root).Mkdir", "os.(*Root).Remove"} {
		mut[n] = true
	}
	var keys []string
	for k, f := range w.prog.funcs {
		if f.Blocks != nil && f.Pkg != nil && strings.HasPrefix(f.Pkg.Pkg.Path(), "github.com/FollowTheProcess/spok") {
			keys = append(keys, k)
		}
	}
	sort.Strings(keys)
	var bad []string
	n := 0
	for _, k := range keys {
		f := w.prog.funcs[k]
		for _, b := range f.Blocks {
			for _, ins := range b.Instrs {
				var cc *ssa.CallCommon
				switch x := ins.(type) {
				case *ssa.Call:
					cc = &x.Call
				case *ssa.Defer:
					cc = &x.Call
				case *ssa.Go:
					cc = &x.Call
				}
				if cc == nil {
					continue
				}
				callee := cc.StaticCallee()
				if callee == nil {
					continue
				}
				ck := funcKey(callee)
				if !mut[ck] {
					continue
				}
				n++
				pos := w.prog.prog.Fset.Position(ins.Pos()).String()
				cs, ok := w.funcSpecs[ck]
				hasFS := false
				if ok {
					for _, m := range cs.Modifies {
						if strings.Contains(fmt.Sprint(m), "fswrites") {
							hasFS = true
						}
					}
				}
				if !hasFS {
					bad = append(bad, ck+" called at "+pos+" has no assumed contract that records the write in fswrites")
				}
				// the caller (or, for a closure, its outermost parent) is verified against a contract
				top := f
				for top.Parent() != nil {
					top = top.Parent()
				}
				us, ok1 := w.funcSpecs[k]
				ts, ok2 := w.funcSpecs[funcKey(top)]
				verified := (ok1 && !us.Assumed && us.Trusted == "") || (ok2 && !ts.Assumed && ts.Trusted == "" && f != top && w.inlinable(f))
				if !verified {
					bad = append(bad, k+" calls "+ck+" at "+pos+" but is not verified against a contract")
				}
			}
		}
	}
	return []structResult{{Name: "fswriters:every-write-primitive-is-charged-to-a-verified-frame", OK: len(bad) == 0, Detail: fmt.Sprintf("%d calls to file-system mutating primitives; %s", n, strings.Join(bad, "; "))}}
}

func (w *World) inlinable(f *ssa.Function) bool { return false }

// structGlobalStore: the package-level variable `global` ("pkg.Name") is stored to only inside `only`.
func (w *World) structGlobalStore(global, only string) []structResult {
	var bad []string
	n := 0
	for k, f := range w.prog.funcs {
		if f.Blocks == nil {
			continue
		}
		for _, b := range f.Blocks {
			for _, ins := range b.Instrs {
				st, ok := ins.(*ssa.Store)
				if !ok {
					continue
				}
				gv, ok := st.Addr.(*ssa.Global)
				if !ok || gv.Pkg == nil {
					continue
				}
				if shortPkg(gv.Pkg.Pkg)+"."+gv.Name() != global {
					continue
				}
				n++
				if k != only {
					bad = append(bad, k+" stores to "+global+" at "+w.prog.prog.Fset.Position(ins.Pos()).String())
				}
			}
		}
	}
	// a map held in the global must not be updated outside `only` either
	for k, f := range w.prog.funcs {
		if f.Blocks == nil || k == only {
			continue
		}
		for _, b := range f.Blocks {
			for _, ins := range b.Instrs {
				mu, ok := ins.(*ssa.MapUpdate)
				if !ok {
					continue
				}
				if ld, ok := mu.Map.(*ssa.UnOp); ok {
					if gv, ok := ld.X.(*ssa.Global); ok && gv.Pkg != nil && shortPkg(gv.Pkg.Pkg)+"."+gv.Name() == global {
						bad = append(bad, k+" updates the map held in "+global+" at "+w.prog.prog.Fset.Position(ins.Pos()).String())
					}
				}
			}
		}
	}
	sort.Strings(bad)
	// the address of the global must not escape either (a store through a pointer would go unseen)
	for k, f := range w.prog.funcs {
		if f.Blocks == nil {
			continue
		}
		for _, b := range f.Blocks {
			for _, ins := range b.Instrs {
				for _, op := range ins.Operands(nil) {
					gv, ok := (*op).(*ssa.Global)
					if !ok || gv.Pkg == nil || shortPkg(gv.Pkg.Pkg)+"."+gv.Name() != global {
						continue
					}
					switch x := ins.(type) {
					case *ssa.UnOp:
						continue // load
					case *ssa.Store:
						if x.Addr == gv {
							continue
						}
					case *ssa.DebugRef:
						continue
					}
					bad = append(bad, k+" takes the address of "+global+" at "+w.prog.prog.Fset.Position(ins.Pos()).String())
				}
			}
		}
	}
	return []structResult{{Name: "globalstore:" + global + "-only-in-" + only, OK: len(bad) == 0 && n > 0, Detail: fmt.Sprintf("%d stores; %s", n, strings.Join(bad, "; "))}}
}

// structStdoutWriters (C20): the ghost record stdoutDocs is complete only if the process's standard
// output is written by nothing else. Non-test code of /repo may call fmt.Print/Printf/Println and
// refer to os.Stdout only inside the listed functions.
func (w *World) structStdoutWriters(allowed []string) []structResult {
	ok := map[string]bool{}
	for _, a := range allowed {
		ok[a] = true
	}
	var bad []string
	n := 0
	var keys []string
	for k, f := range w.prog.funcs {
		if f.Blocks != nil && f.Pkg != nil && strings.HasPrefix(f.Pkg.Pkg.Path(), "github.com/FollowTheProcess/spok") {
			keys = append(keys, k)
		}
	}
	sort.Strings(keys)
	for _, k := range keys {
		f := w.prog.funcs[k]
		for _, b := range f.Blocks {
			for _, ins := range b.Instrs {
				what := ""
				if c, isCall := ins.(ssa.CallInstruction); isCall {
					if callee := c.Common().StaticCallee(); callee != nil {
						switch funcKey(callee) {
						case "fmt.Print", "fmt.Printf", "fmt.Println", "builtin.print", "builtin.println":
							what = "call to " + funcKey(callee)
						}
						// the msg library: the F-variants write to the stream they are given, the others
						// (Info, Warn, Success, Title ...) straight to the process's standard output
						if callee.Pkg != nil && strings.HasSuffix(callee.Pkg.Pkg.Path(), "FollowTheProcess/msg") && !strings.HasPrefix(callee.Name(), "F") && callee.Name() != "Error" && callee.Name() != "init" && callee.Synthetic == "" {
							what = "call to msg." + callee.Name() + " (writes to os.Stdout)"
						}
					}
					if bi, isB := c.Common().Value.(*ssa.Builtin); isB && (bi.Name() == "print" || bi.Name() == "println") {
						what = "builtin " + bi.Name()
					}
				}
				for _, op := range ins.Operands(nil) {
					if gv, isG := (*op).(*ssa.Global); isG && gv.Pkg != nil && gv.Pkg.Pkg.Path() == "os" && gv.Name() == "Stdout" {
						what = "reference to os.Stdout"
					}
				}
				if what == "" {
					continue
				}
				n++
				if !ok[k] {
					bad = append(bad, k+": "+what+" at "+w.prog.prog.Fset.Position(ins.Pos()).String())
				}
			}
		}
	}
	return []structResult{{Name: "stdoutwriters:only-in-" + strings.Join(allowed, "+"), OK: len(bad) == 0 && n > 0, Detail: fmt.Sprintf("%d direct uses of the process's standard output; %s", n, strings.Join(bad, "; "))}}
}

// structFlags: the command-line flags are bound to the Options fields the contracts of App.Run speak
// about, with the documented names and a false / empty default. Spec: "Field=name,Field=name,...".
// Checked on the SSA of cli/cmd.BuildRootCmd: every call of cli.Flag(&spok.Options.<Field>, "<name>",
// short, <default>, usage).
func (w *World) structFlags(spec string) []structResult {
	want := map[string]string{}
	for _, kv := range strings.Split(spec, ",") {
		p := strings.SplitN(kv, "=", 2)
		if len(p) == 2 {
			want[p[0]] = p[1]
		}
	}
	fn := w.prog.funcs["cli_cmd.BuildRootCmd"]
	if fn == nil || fn.Blocks == nil {
		return []structResult{{Name: "flags:bindings", OK: false, Detail: "cli/cmd.BuildRootCmd not found"}}
	}
	got := map[string]string{}
	var bad []string
	for _, b := range fn.Blocks {
		for _, ins := range b.Instrs {
			call, ok := ins.(*ssa.Call)
			if !ok {
				continue
			}
			callee := call.Call.StaticCallee()
			if callee == nil || callee.Pkg == nil && callee.Origin() == nil {
				continue
			}
			if !strings.HasSuffix(funcKey(callee), "cli.Flag") {
				continue
			}
			pos := w.prog.prog.Fset.Position(ins.Pos()).String()
			fa, ok := call.Call.Args[0].(*ssa.FieldAddr)
			if !ok {
				bad = append(bad, "flag at "+pos+" is not bound to a field of Options")
				continue
			}
			st := fa.X.Type().Underlying().(*types.Pointer).Elem().Underlying().(*types.Struct)
			field := st.Field(fa.Field).Name()
			if nt, ok := types.Unalias(fa.X.Type().Underlying().(*types.Pointer).Elem()).(*types.Named); !ok || nt.Obj().Name() != "Options" {
				bad = append(bad, "flag at "+pos+" is bound to a field of something else than app.Options")
			}
			name := ""
			if k, ok := call.Call.Args[1].(*ssa.Const); ok && k.Value != nil {
				name = strings.Trim(k.Value.ExactString(), "\"")
			}
			if _, dup := got[field]; dup {
				bad = append(bad, "Options."+field+" is bound to two flags")
			}
			got[field] = name
			if k, ok := call.Call.Args[3].(*ssa.Const); !ok || !(k.Value == nil || k.Value.ExactString() == "false" || k.Value.ExactString() == "\"\"") {
				bad = append(bad, "flag --"+name+" at "+pos+" does not default to false / the empty string")
			}
		}
	}
	for f, n := range want {
		if got[f] != n {
			bad = append(bad, fmt.Sprintf("Options.%s is bound to flag %q, expected %q", f, got[f], n))
		}
	}
	for f, n := range got {
		if _, ok := want[f]; !ok {
			bad = append(bad, fmt.Sprintf("unexpected flag %q bound to Options.%s", n, f))
		}
	}
	sort.Strings(bad)
	return []structResult{{Name: "flags:bindings", OK: len(bad) == 0, Detail: fmt.Sprintf("%d flags; %s", len(got), strings.Join(bad, "; "))}}
}

// scanSliceArgs lists, for every function under contract, the calls that hand a slice to a callee
// without contract outside /repo (such a callee could write through the slice, which the value model
// of slices cannot see).
func (w *World) scanSliceArgs() []string {
	var out []string
	var keys []string
	for k, s := range w.funcSpecs {
		if !strings.HasPrefix(k, "functype:") && !s.Assumed && s.Trusted == "" {
			keys = append(keys, k)
		}
	}
	sort.Strings(keys)
	for _, k := range keys {
		f := w.prog.funcs[k]
		if f == nil || f.Blocks == nil {
			continue
		}
		for _, b := range f.Blocks {
			for _, ins := range b.Instrs {
				ci, ok := ins.(ssa.CallInstruction)
				if !ok {
					continue
				}
				cc := ci.Common()
				callee := cc.StaticCallee()
				name := "dynamic/interface"
				if callee != nil {
					name = funcKey(callee)
					if _, has := w.funcSpecs[name]; has {
						continue
					}
					if callee.Pkg != nil && strings.HasPrefix(callee.Pkg.Pkg.Path(), "github.com/FollowTheProcess/spok") {
						continue
					}
				} else if cc.IsInvoke() {
					name = "invoke " + ifaceMethodKey(cc.Value.Type(), cc.Method)
					if _, has := w.ifaceSpecs[ifaceMethodKey(cc.Value.Type(), cc.Method)]; has {
						continue
					}
				} else if _, isB := cc.Value.(*ssa.Builtin); isB {
					continue
				}
				for _, a := range cc.Args {
					t := a.Type()
					if mi, ok := a.(*ssa.MakeInterface); ok {
						t = mi.X.Type()
					}
					if _, isSlice := t.Underlying().(*types.Slice); isSlice {
						if _, isVar := a.(*ssa.Slice); isVar {
							continue // a varargs temporary built at the call site
						}
						out = append(out, fmt.Sprintf("%s: %s gets a %s at %s", k, name, t, w.prog.prog.Fset.Position(ins.Pos())))
					}
				}
			}
		}
	}
	return out
}
