package main

// Structural side conditions checked on the SSA of the working tree.

import (
	"fmt"
	"go/token"
	"go/types"
	"sort"
	"strings"

	"golang.org/x/tools/go/ssa"
)

type structResult struct {
	Name   string
	OK     bool
	Detail string
}

// structDeterminism: the functions of the given packages contain no source of
// nondeterminism (goroutines, select, channel receive, map iteration, clocks, random numbers,
// environment), except the listed ones.
func (w *World) structDeterminism(pkgs []string, allow map[string]string) []structResult {
	var out []structResult
	var keys []string
	for k, f := range w.prog.funcs {
		if f.Blocks == nil {
			continue
		}
		p := strings.SplitN(k, ".", 2)[0]
		for _, want := range pkgs {
			if p == want {
				keys = append(keys, k)
			}
		}
	}
	sort.Strings(keys)
	for _, k := range keys {
		f := w.prog.funcs[k]
		var bad []string
		for _, b := range f.Blocks {
			for _, ins := range b.Instrs {
				what := ""
				switch x := ins.(type) {
				case *ssa.Go:
					what = "go statement"
				case *ssa.Select:
					what = "select"
				case *ssa.UnOp:
					if x.Op == token.ARROW {
						what = "channel receive"
					}
				case *ssa.Range:
					if _, ok := x.X.Type().Underlying().(*types.Map); ok {
						what = "map iteration"
					}
				case *ssa.Call:
					if callee := x.Call.StaticCallee(); callee != nil && callee.Pkg != nil {
						switch callee.Pkg.Pkg.Path() {
						case "time", "math/rand", "math/rand/v2", "crypto/rand", "os", "runtime":
							what = "call to " + callee.Pkg.Pkg.Path() + "." + callee.Name()
						}
					}
				}
				if what != "" {
					if why, ok := allow[k+":"+what]; ok {
						_ = why
						continue
					}
					bad = append(bad, what+" at "+w.prog.prog.Fset.Position(ins.Pos()).String())
				}
			}
		}
		out = append(out, structResult{Name: "determinism:" + k, OK: len(bad) == 0, Detail: strings.Join(bad, "; ")})
	}
	return out
}

func (w *World) runStructural(spec string) []structResult {
	// spec: "determinism:lexer,parser,ast,token"
	parts := strings.SplitN(spec, ":", 2)
	switch parts[0] {
	case "determinism":
		allow := map[string]string{
			"lexer.New:go statement":                      "the lexer goroutine: sequentialisation assumption",
			"lexer.(*Lexer).NextToken:channel receive":    "the single consumer of the token channel: sequentialisation assumption",
		}
		return w.structDeterminism(strings.Split(parts[1], ","), allow)
	}
	return []structResult{{Name: spec, OK: false, Detail: fmt.Sprintf("unknown structural check %q", spec)}}
}
