package main

// Structural side conditions checked on the SSA of the working tree.

import (
	"fmt"
	"go/token"
	"go/types"
	"sort"
	"strings"

	"golang.org/x/tools/go/ssa"
)

type structResult struct {
	Name   string
	OK     bool
	Detail string
}

// structDeterminism: the functions of the given packages contain no source of
// nondeterminism (goroutines, select, channel receive, map iteration, clocks, random numbers,
// environment), except the listed ones.
func (w *World) structDeterminism(pkgs []string, allow map[string]string) []structResult {
	var out []structResult
	var keys []string
	for k, f := range w.prog.funcs {
		if f.Blocks == nil {
			continue
		}
		p := strings.SplitN(k, ".", 2)[0]
		for _, want := range pkgs {
			if p == want {
				keys = append(keys, k)
			}
		}
	}
	sort.Strings(keys)
	for _, k := range keys {
		f := w.prog.funcs[k]
		var bad []string
		for _, b := range f.Blocks {
			for _, ins := range b.Instrs {
				what := ""
				switch x := ins.(type) {
				case *ssa.Go:
					what = "go statement"
				case *ssa.Select:
					what = "select"
				case *ssa.UnOp:
					if x.Op == token.ARROW {
						what = "channel receive"
					}
				case *ssa.Range:
					if _, ok := x.X.Type().Underlying().(*types.Map); ok {
						what = "map iteration"
					}
				case *ssa.Call:
					if callee := x.Call.StaticCallee(); callee != nil && callee.Pkg != nil {
						switch callee.Pkg.Pkg.Path() {
						case "time", "math/rand", "math/rand/v2", "crypto/rand", "os", "runtime":
							what = "call to " + callee.Pkg.Pkg.Path() + "." + callee.Name()
						}
					}
				}
				if what != "" {
					if why, ok := allow[k+":"+what]; ok {
						_ = why
						continue
					}
					bad = append(bad, what+" at "+w.prog.prog.Fset.Position(ins.Pos()).String())
				}
			}
		}
		out = append(out, structResult{Name: "determinism:" + k, OK: len(bad) == 0, Detail: strings.Join(bad, "; ")})
	}
	return out
}

func (w *World) runStructural(spec string) []structResult {
	// spec: "determinism:lexer,parser,ast,token"
	parts := strings.SplitN(spec, ":", 2)
	switch parts[0] {
	case "determinism":
		allow := map[string]string{
			"lexer.New:go statement":                      "the lexer goroutine: sequentialisation assumption",
			"lexer.(*Lexer).NextToken:channel receive":    "the single consumer of the token channel: sequentialisation assumption",
		}
		return w.structDeterminism(strings.Split(parts[1], ","), allow)
	case "pool":
		return w.structPool()
	}
	return []structResult{{Name: spec, OK: false, Detail: fmt.Sprintf("unknown structural check %q", spec)}}
}

// structPool: side conditions of the worker-pool meta-lemma (C04/C18), checked on the SSA:
//  (1) every `go worker(...)` in Concurrent.Hash is preceded in its block by wg.Add(1) on the same WaitGroup;
//  (2) worker defers wg.Done() before anything else;
//  (3) in the closer closure, close(results) is dominated by the call to wg.Wait();
//  (4) Hash ranges over (receives from) the results channel only, and worker ranges over the jobs channel.
func (w *World) structPool() []structResult {
	var out []structResult
	hashFn := w.prog.funcs["hash.(Concurrent).Hash"]
	worker := w.prog.funcs["hash.worker"]
	closer := w.prog.funcs["hash.(Concurrent).Hash$2"]
	if hashFn == nil || worker == nil || closer == nil {
		return []structResult{{Name: "pool:functions-exist", OK: false, Detail: "hash.(Concurrent).Hash, hash.worker or the closer closure not found"}}
	}
	// (1)
	ok1, n1 := true, 0
	for _, b := range hashFn.Blocks {
		for i, ins := range b.Instrs {
			g, isGo := ins.(*ssa.Go)
			if !isGo || g.Call.StaticCallee() != worker {
				continue
			}
			n1++
			found := false
			for j := i - 1; j >= 0; j-- {
				if c, isCall := b.Instrs[j].(*ssa.Call); isCall {
					if callee := c.Call.StaticCallee(); callee != nil && funcKey(callee) == "sync.(*WaitGroup).Add" {
						if k, isConst := c.Call.Args[1].(*ssa.Const); isConst && k.Int64() == 1 && c.Call.Args[0] == g.Call.Args[2] {
							found = true
						}
					}
					break
				}
			}
			if !found {
				ok1 = false
			}
		}
	}
	out = append(out, structResult{Name: "pool:add-before-go-worker", OK: ok1 && n1 > 0, Detail: fmt.Sprintf("%d go worker statements", n1)})
	// (2)
	ok2 := false
	if len(worker.Blocks) > 0 {
		for _, ins := range worker.Blocks[0].Instrs {
			if _, isDbg := ins.(*ssa.DebugRef); isDbg {
				continue
			}
			if d, isDefer := ins.(*ssa.Defer); isDefer {
				if callee := d.Call.StaticCallee(); callee != nil && funcKey(callee) == "sync.(*WaitGroup).Done" && d.Call.Args[0] == ssa.Value(worker.Params[2]) {
					ok2 = true
				}
			}
			break
		}
	}
	out = append(out, structResult{Name: "pool:worker-defers-done-first", OK: ok2})
	// (3)
	ok3 := false
	var waitBlk, closeBlk *ssa.BasicBlock
	waitIdx, closeIdx := -1, -1
	for _, b := range closer.Blocks {
		for i, ins := range b.Instrs {
			if c, isCall := ins.(*ssa.Call); isCall {
				if callee := c.Call.StaticCallee(); callee != nil && funcKey(callee) == "sync.(*WaitGroup).Wait" {
					waitBlk, waitIdx = b, i
				}
				if bi, isB := c.Call.Value.(*ssa.Builtin); isB && bi.Name() == "close" {
					closeBlk, closeIdx = b, i
				}
			}
		}
	}
	if waitBlk != nil && closeBlk != nil && (waitBlk == closeBlk && waitIdx < closeIdx || waitBlk != closeBlk && waitBlk.Dominates(closeBlk)) {
		ok3 = true
	}
	out = append(out, structResult{Name: "pool:results-closed-after-wait", OK: ok3})
	// (4) worker drains the jobs channel: it returns only when the range over the channel ends
	ok4, n4 := true, 0
	var bad4 []string
	for _, b := range worker.Blocks {
		if worker.Recover != nil && b == worker.Recover {
			continue
		}
		for _, ins := range b.Instrs {
			if _, isRet := ins.(*ssa.Return); isRet {
				n4++
				if b.Comment != "rangechan.done" {
					ok4 = false
					bad4 = append(bad4, "return outside the end of the range over the jobs channel at "+w.prog.prog.Fset.Position(ins.Pos()).String())
				}
			}
		}
	}
	out = append(out, structResult{Name: "pool:worker-drains-jobs", OK: ok4 && n4 > 0, Detail: strings.Join(bad4, "; ")})
	return out
}
