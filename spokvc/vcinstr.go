package main

import (
	"fmt"
	"go/token"
	"go/types"
	"strings"

	"golang.org/x/tools/go/ssa"
)

func (a *Act) execBlock(b *ssa.BasicBlock, ctx *blockCtx) {
	g := a.g
	_, isHeader := a.loops[b]
	for idx, ins := range b.Instrs {
		a.curBlk, a.curIdx = b, idx
		if len(a.pending) > 0 {
			_, isExt := ins.(*ssa.Extract)
			_, isDbg := ins.(*ssa.DebugRef)
			if st, isStore := ins.(*ssa.Store); isStore {
				// the store of a call's (extracted) result into its named variable belongs to the call
				if _, fromExt := st.Val.(*ssa.Extract); fromExt {
					isExt = true
				} else if _, fromCall := st.Val.(*ssa.Call); fromCall {
					isExt = true
				}
			}
			if !isExt && !isDbg {
				ps := a.pending
				a.pending = nil
				for _, p := range ps {
					a.anchors(ctx, p.callee, p.n, true, b, idx)
				}
			}
		}
		switch x := ins.(type) {
		case *ssa.Phi:
			if isHeader {
				continue // set in enterLoop
			}
			s := g.w.sortOf(x.Type())
			var t string
			first := true
			for i := len(x.Edges) - 1; i >= 0; i-- {
				p := b.Preds[i]
				e, ok := a.edges[[2]int{p.Index, b.Index}]
				if !ok {
					continue
				}
				v := a.val(x.Edges[i])
				v = a.coerce(v, s)
				if first {
					t = v.T
					first = false
				} else {
					t = "(ite " + e.cond + " " + v.T + " " + t + ")"
				}
			}
			if first {
				t = g.w.zeroSort(s)
			}
			n := g.fresh("phi_"+x.Name(), s)
			g.fact("(= " + n + " " + t + ")")
			a.set(x, Val{T: n, S: s, G: x.Type()})
		case *ssa.DebugRef:
		case *ssa.Alloc:
			a.set(x, a.alloc(ctx, x.Type().(*types.Pointer).Elem(), x.Comment))
		case *ssa.FieldAddr:
			a.set(x, a.fieldAddr(ctx, x))
		case *ssa.Field:
			b := a.val(x.X)
			st := x.X.Type().Underlying().(*types.Struct)
			ss := g.w.structSorts[g.w.sortOf(x.X.Type())]
			a.set(x, Val{T: "(" + ss.Fields[x.Field] + " " + b.T + ")", S: ss.Sorts[x.Field], G: st.Field(x.Field).Type()})
		case *ssa.IndexAddr:
			a.set(x, a.indexAddr(ctx, x))
		case *ssa.Index:
			bv := a.val(x.X)
			iv := a.val(x.Index)
			if bv.S == "Str" {
				g.oblige("bounds", a.key+"/bounds/index", ctx.reach, and("(<= 0 "+iv.T+")", "(< "+iv.T+" (slen "+bv.T+"))"), "string index in range", g.pos(x.Pos()), a.safetyProps())
				a.set(x, intT("(sat "+bv.T+" "+iv.T+")"))
			} else {
				ar := x.X.Type().Underlying().(*types.Array)
				g.oblige("bounds", a.key+"/bounds/index", ctx.reach, and("(<= 0 "+iv.T+")", fmt.Sprintf("(< %s %d)", iv.T, ar.Len())), "array index in range", g.pos(x.Pos()), a.safetyProps())
				_, es := splitArraySort(bv.S)
				a.set(x, Val{T: "(select " + bv.T + " " + iv.T + ")", S: es, G: ar.Elem()})
			}
		case *ssa.UnOp:
			a.unop(ctx, x)
		case *ssa.BinOp:
			a.binop(ctx, x)
		case *ssa.Store:
			a.store(ctx, a.val(x.Addr), a.val(x.Val), x.Pos())
		case *ssa.Call:
			v, tup := a.call(ctx, &x.Call, x, b, idx)
			if tup != nil {
				a.tuples[x] = tup
				a.set(x, Val{T: "$tuple", S: "Tuple", G: x.Type()})
			} else {
				a.set(x, v)
			}
		case *ssa.Extract:
			tup := a.tuples[x.Tuple]
			if tup == nil || x.Index >= len(tup) {
				g.problem("%s: extract from unknown tuple", a.key)
				s := g.w.sortOf(x.Type())
				a.set(x, Val{T: g.fresh("ext", s), S: s})
			} else {
				a.set(x, tup[x.Index])
			}
		case *ssa.ChangeType:
			v := a.val(x.X)
			v.G = x.Type()
			a.set(x, v)
		case *ssa.ChangeInterface:
			v := a.val(x.X)
			v.G = x.Type()
			a.set(x, v)
		case *ssa.Convert:
			a.convert(ctx, x)
		case *ssa.MakeInterface:
			v := a.val(x.X)
			a.set(x, a.box(v, x.X.Type(), x.Type()))
		case *ssa.TypeAssert:
			a.typeAssert(ctx, x)
		case *ssa.MakeMap:
			m := x.Type().Underlying().(*types.Map)
			hv, k, vs := g.w.mapHeap(m)
			r := a.freshRef(ctx, "map")
			ctx.st[hv] = "(store " + g.stateGet(ctx.st, hv) + " " + r + " (mk_map ((as const (Array " + k + " Bool)) false) " + g.w.constArr(k, vs) + "))"
			a.set(x, Val{T: r, S: "Ref", G: x.Type()})
		case *ssa.MapUpdate:
			mv := a.val(x.Map)
			kv := a.val(x.Key)
			vv := a.val(x.Value)
			m := x.Map.Type().Underlying().(*types.Map)
			hv, _, vs := g.w.mapHeap(m)
			vv = a.coerce(vv, vs)
			g.oblige("nil", a.key+"/nil/mapstore", ctx.reach, not("(= "+mv.T+" ref_nil)"), "assignment to entry in nil map", g.pos(x.Pos()), a.safetyProps())
			cur := "(select " + g.stateGet(ctx.st, hv) + " " + mv.T + ")"
			oldH := g.stateGet(ctx.st, hv)
			oldMV := g.mapvalTerm(ctx.st, mv, m)
			newH := g.fresh(hv, g.w.heapVars[hv])
			g.fact("(= " + newH + " (store " + oldH + " " + mv.T + " (mk_map (store (map_dom " + cur + ") " + kv.T + " true) (store (map_val " + cur + ") " + kv.T + " " + vv.T + "))))")
			ctx.st[hv] = newH
			// consequences of the update stated over the map-value functions (cheap triggers for frames)
			newMV := g.mapvalTerm(ctx.st, mv, m)
			ks := g.w.sortOf(m.Key())
			mg := g.mgetFn(ks, vs)
			q := g.freshName("mq")
			r := g.freshName("mr")
			mvf := strings.SplitN(strings.TrimPrefix(newMV, "("), " ", 2)[0]
			g.fact(implies(and(ctx.reach, not("(= "+mv.T+" ref_nil)")), and(
				"(= ("+mg+" "+newMV+" "+kv.T+") "+vv.T+")",
				"(select (map_dom "+newMV+") "+kv.T+")",
				"(forall (("+q+" "+ks+")) (! (=> (not (= "+q+" "+kv.T+")) (= ("+mg+" "+newMV+" "+q+") ("+mg+" "+oldMV+" "+q+"))) :pattern (("+mg+" "+newMV+" "+q+"))))",
				"(forall (("+q+" "+ks+")) (! (=> (not (= "+q+" "+kv.T+")) (= (select (map_dom "+newMV+") "+q+") (select (map_dom "+oldMV+") "+q+"))) :pattern ((select (map_dom "+newMV+") "+q+"))))",
				"true")))
			_, _ = r, mvf
		case *ssa.Lookup:
			a.lookup(ctx, x)
		case *ssa.MakeSlice:
			lv := a.val(x.Len)
			s := g.w.sortOf(x.Type())
			e := slcElem(s)
			a.set(x, Val{T: "((as mk_slc " + s + ") " + g.w.constArr("Int", e) + " " + lv.T + ")", S: s, G: x.Type()})
		case *ssa.MakeChan:
			a.set(x, Val{T: a.freshRef(ctx, "chan"), S: "Ref", G: x.Type()})
		case *ssa.MakeClosure:
			fn := x.Fn.(*ssa.Function)
			id := g.fresh("closure_"+shortName(funcKey(fn)), "Int")
			g.fact("(> " + id + " 100000)")
			ci := &closureInfo{fn: fn}
			for _, bnd := range x.Bindings {
				ci.bindings = append(ci.bindings, a.val(bnd))
			}
			a.closures[id] = ci
			a.set(x, Val{T: id, S: "Int", G: x.Type()})
		case *ssa.Slice:
			a.slice(ctx, x)
		case *ssa.Range:
			a.rangeInit(ctx, x)
		case *ssa.Next:
			a.rangeNext(ctx, x)
		case *ssa.Send:
			a.send(ctx, x, b, idx)
		case *ssa.Defer:
			d := deferred{call: &x.Call, pos: x.Pos()}
			for _, arg := range x.Call.Args {
				d.args = append(d.args, a.val(arg))
			}
			if !x.Call.IsInvoke() && x.Call.StaticCallee() == nil {
				d.fnv = a.val(x.Call.Value)
			} else if x.Call.IsInvoke() {
				d.fnv = a.val(x.Call.Value)
			}
			a.deferSt = append(a.deferSt, d)
		case *ssa.RunDefers:
			for i := len(a.deferSt) - 1; i >= 0; i-- {
				d := a.deferSt[i]
				a.callWithArgs(ctx, d.call, d.args, d.fnv, nil, b, idx, d.pos)
			}
		case *ssa.Go:
			a.spawn(ctx, x)
		case *ssa.Select:
			g.problem("%s: select at %s is outside the verified subset", a.key, g.pos(x.Pos()))
		case *ssa.Panic:
			g.oblige("panic", a.key+"/panic", ctx.reach, "false", "explicit panic reachable", g.pos(x.Pos()), a.safetyProps())
		case *ssa.If:
			c := a.val(x.Cond)
			a.addEdge(b, b.Succs[0], and(ctx.reach, c.T), ctx.st)
			a.addEdge(b, b.Succs[1], and(ctx.reach, not(c.T)), ctx.st)
		case *ssa.Jump:
			a.addEdge(b, b.Succs[0], ctx.reach, ctx.st)
		case *ssa.Return:
			var rs []Val
			for _, r := range x.Results {
				rs = append(rs, a.val(r))
			}
			a.exits = append(a.exits, exitPt{reach: ctx.reach, st: ctx.st.clone(), results: rs, pos: x.Pos()})
		default:
			g.problem("%s: unsupported instruction %T at %s", a.key, ins, g.pos(ins.Pos()))
			if v, ok := ins.(ssa.Value); ok {
				s := g.w.sortOf(v.Type())
				a.set(v, Val{T: g.fresh("unsup", s), S: s, G: v.Type()})
			}
		}
	}
}

func (a *Act) safetyProps() []string {
	if a.g.spec != nil {
		return a.g.spec.Props
	}
	return nil
}

func (a *Act) addEdge(from, to *ssa.BasicBlock, cond string, st State) {
	if li, ok := a.loops[to]; ok && to.Dominates(from) {
		a.backEdge(li, from, cond, st)
		return
	}
	// name the condition to keep terms small
	c := cond
	if len(cond) > 40 {
		c = a.g.fresh(fmt.Sprintf("e_%d_%d", from.Index, to.Index), "Bool")
		a.g.fact("(= " + c + " " + cond + ")")
	}
	a.edges[[2]int{from.Index, to.Index}] = edge{cond: c, st: st.clone()}
}

func (a *Act) freshRef(ctx *blockCtx, tag string) string {
	g := a.g
	g.w.heapVars["$wm"] = "Int"
	r := g.fresh("ref_"+tag, "Ref")
	g.fact("(= " + r + " (+ " + g.stateGet(ctx.st, "$wm") + " 1))")
	ctx.st["$wm"] = r
	g.refs = append(g.refs, r)
	return r
}

func (a *Act) alloc(ctx *blockCtx, elem types.Type, tag string) Val {
	g := a.g
	r := a.freshRef(ctx, tag)
	pt := types.NewPointer(elem)
	if nt, ok := types.Unalias(elem).(*types.Named); ok {
		if st, ok := nt.Underlying().(*types.Struct); ok {
			key := namedKey(nt)
			for i := 0; i < st.NumFields(); i++ {
				hv, s := g.w.fieldHeap(key, st, i)
				ctx.st[hv] = "(store " + g.stateGet(ctx.st, hv) + " " + r + " " + g.w.zeroSort(s) + ")"
			}
			for gk, gf := range g.w.ghostFields {
				if gf.TypeKey == key {
					_ = gk
					hv, err := g.fieldHeapByName(nt, gf.Name)
					if err == nil {
						_, es := splitArraySort(g.w.heapVars[hv])
						ctx.st[hv] = "(store " + g.stateGet(ctx.st, hv) + " " + r + " " + g.w.zeroSort(es) + ")"
					}
				}
			}
			return Val{T: r, S: "Ref", G: pt}
		}
	}
	s := g.w.sortOf(elem)
	hv := g.w.cellHeap(s)
	ctx.st[hv] = "(store " + g.stateGet(ctx.st, hv) + " " + r + " " + g.w.zeroSort(s) + ")"
	return Val{T: r, S: "Ref", G: pt}
}

func (a *Act) fieldAddr(ctx *blockCtx, x *ssa.FieldAddr) Val {
	g := a.g
	base := a.val(x.X)
	pt := x.X.Type().Underlying().(*types.Pointer)
	st := pt.Elem().Underlying().(*types.Struct)
	f := st.Field(x.Field)
	if base.L != nil {
		// pointer into a nested location: extend with a datatype selector
		l := *base.L
		dt := g.w.sortOf(pt.Elem())
		ss := g.w.structSorts[dt]
		l.Sub = append(append([]subSel{}, l.Sub...), subSel{DT: dt, Field: ss.Fields[x.Field], All: ss.Fields, Cons: "mk_" + dt})
		l.ElemS = ss.Sorts[x.Field]
		l.ElemG = f.Type()
		return Val{T: base.T, S: "Ref", G: x.Type(), L: &l}
	}
	nt, ok := types.Unalias(pt.Elem()).(*types.Named)
	if !ok {
		g.problem("%s: field address of unnamed struct at %s", a.key, g.pos(x.Pos()))
		return Val{T: base.T, S: "Ref", G: x.Type()}
	}
	hv, s := g.w.fieldHeap(namedKey(nt), st, x.Field)
	return Val{T: base.T, S: "Ref", G: x.Type(), L: &LVal{Kind: "field", Base: base, Heap: hv, ElemS: s, ElemG: f.Type()}}
}

func (a *Act) indexAddr(ctx *blockCtx, x *ssa.IndexAddr) Val {
	g := a.g
	base := a.val(x.X)
	iv := a.val(x.Index)
	switch t := x.X.Type().Underlying().(type) {
	case *types.Slice:
		es := g.w.sortOf(t.Elem())
		return Val{T: "ref_nil", S: "Ref", G: x.Type(), L: &LVal{Kind: "sliceidx", Base: base, Idx: &iv, ElemS: es, ElemG: t.Elem()}}
	case *types.Pointer:
		ar := t.Elem().Underlying().(*types.Array)
		es := g.w.sortOf(ar.Elem())
		g.oblige("bounds", a.key+"/bounds/arrayindex", ctx.reach, and("(<= 0 "+iv.T+")", fmt.Sprintf("(< %s %d)", iv.T, ar.Len())), "array index in range", g.pos(x.Pos()), a.safetyProps())
		if base.L != nil {
			l := *base.L
			if l.Idx != nil || len(l.Sub) > 0 {
				g.problem("%s: nested array index address at %s", a.key, g.pos(x.Pos()))
			}
			l.Idx = &iv
			l.ElemS = es
			l.ElemG = ar.Elem()
			return Val{T: base.T, S: "Ref", G: x.Type(), L: &l}
		}
		as := g.w.sortOf(t.Elem())
		hv := g.w.cellHeap(as)
		return Val{T: base.T, S: "Ref", G: x.Type(), L: &LVal{Kind: "cell", Base: base, Heap: hv, Idx: &iv, ElemS: es, ElemG: ar.Elem()}}
	}
	g.problem("%s: unsupported IndexAddr at %s", a.key, g.pos(x.Pos()))
	return Val{T: "ref_nil", S: "Ref", G: x.Type()}
}

// load reads through a pointer value (no obligations: used by specs too).
func (g *Gen) load(st State, p Val) Val {
	if p.L != nil {
		l := p.L
		var t string
		switch l.Kind {
		case "field", "cell":
			t = "(select " + g.stateGet(st, l.Heap) + " " + l.Base.T + ")"
			if l.Idx != nil {
				t = "(select " + t + " " + l.Idx.T + ")"
			}
		case "global":
			t = g.stateGet(st, l.Heap)
		case "sliceidx":
			t = "(select (slc_arr " + l.Base.T + ") " + l.Idx.T + ")"
		}
		for _, s := range l.Sub {
			t = "(" + s.Field + " " + t + ")"
		}
		return Val{T: t, S: l.ElemS, G: l.ElemG}
	}
	pt, ok := p.G.Underlying().(*types.Pointer)
	if !ok {
		panic(specErr("load through non-pointer"))
	}
	elem := pt.Elem()
	if nt, ok := types.Unalias(elem).(*types.Named); ok {
		if st2, ok := nt.Underlying().(*types.Struct); ok {
			sn := g.w.sortOf(elem)
			if st2.NumFields() == 0 {
				return Val{T: "mk_" + sn, S: sn, G: elem}
			}
			var parts []string
			for i := 0; i < st2.NumFields(); i++ {
				hv, _ := g.w.fieldHeap(namedKey(nt), st2, i)
				parts = append(parts, "(select "+g.stateGet(st, hv)+" "+p.T+")")
			}
			return Val{T: "(mk_" + sn + " " + strings.Join(parts, " ") + ")", S: sn, G: elem}
		}
	}
	s := g.w.sortOf(elem)
	hv := g.w.cellHeap(s)
	return Val{T: "(select " + g.stateGet(st, hv) + " " + p.T + ")", S: s, G: elem}
}

func (a *Act) unop(ctx *blockCtx, x *ssa.UnOp) {
	g := a.g
	v := a.val(x.X)
	switch x.Op {
	case token.MUL:
		if gl, ok := x.X.(*ssa.Global); ok && gl.Name() == "init$guard" {
			// a package initialiser is verified for its first (only effective) execution
			a.set(x, boolT("false"))
			return
		}
		a.checkDeref(ctx, v, x.Pos())
		r := g.load(ctx.st, v)
		// name big loaded struct values
		if len(r.T) > 60 {
			n := g.fresh("ld", r.S)
			g.fact("(= " + n + " " + r.T + ")")
			r.T = n
		}
		g.assumeType(r)
		a.set(x, r)
	case token.NOT:
		a.set(x, boolT(not(v.T)))
	case token.SUB:
		a.set(x, intT("(- "+v.T+")"))
	case token.ARROW:
		// receive: an arbitrary value of the element type arrives (or the channel is closed).
		// Which values arrive is the business of the sender's contract (sequentialisation / pool lemma).
		et := x.X.Type().Underlying().(*types.Chan).Elem()
		rv := a.freshVal(et, "received")
		if x.CommaOk {
			ok := g.fresh("recv_ok", "Bool")
			a.tuples[x] = []Val{rv, boolT(ok)}
			a.set(x, Val{T: "$tuple", S: "Tuple"})
		} else {
			a.set(x, rv)
		}
		g.usedAssumed["channel receive delivers some value of the element type (which values arrive is covered by the stated concurrency meta-lemma, not by this verifier)"] = true
		if a.spec != nil {
			if a.recvVars == nil {
				a.recvVars = map[string]Val{}
			}
			a.recvVars["received"] = rv
			if tup := a.tuples[x]; tup != nil {
				a.recvVars["recvok"] = tup[1]
			} else {
				a.recvVars["recvok"] = boolT("true")
			}
			n := a.ordinalOf(x, "recv")
			blk := x.Block()
			idx := 0
			for k, in := range blk.Instrs {
				if in == ssa.Instruction(x) {
					idx = k
				}
			}
			a.anchors(ctx, "recv", n, true, blk, idx+1)
			delete(a.recvVars, "received")
			delete(a.recvVars, "recvok")
		}
	default:
		g.problem("%s: unsupported unary op %s", a.key, x.Op)
		s := g.w.sortOf(x.Type())
		a.set(x, Val{T: g.fresh("unop", s), S: s, G: x.Type()})
	}
}

func (a *Act) checkDeref(ctx *blockCtx, p Val, pos token.Pos) {
	g := a.g
	if p.L != nil {
		l := p.L
		switch l.Kind {
		case "sliceidx":
			g.oblige("bounds", a.key+"/bounds/sliceindex", ctx.reach, and("(<= 0 "+l.Idx.T+")", "(< "+l.Idx.T+" (slc_len "+l.Base.T+"))"), "slice index in range", g.pos(pos), a.safetyProps())
		case "field":
			a.checkNonNil(ctx, l.Base, pos)
		}
		return
	}
	a.checkNonNil(ctx, p, pos)
}

func (a *Act) checkNonNil(ctx *blockCtx, p Val, pos token.Pos) {
	g := a.g
	// fresh allocations and non-nil-assumed params are syntactically known
	for _, r := range g.refs {
		if r == p.T {
			return
		}
	}
	g.oblige("nil", a.key+"/nil/deref", ctx.reach, not("(= "+p.T+" ref_nil)"), "nil pointer dereference", g.pos(pos), a.safetyProps())
	g.fact(implies(ctx.reach, not("(= "+p.T+" ref_nil)")))
}

func (a *Act) store(ctx *blockCtx, p Val, v Val, pos token.Pos) {
	g := a.g
	a.checkDeref(ctx, p, pos)
	if p.L != nil {
		l := p.L
		v = a.coerce(v, l.ElemS)
		nv := v.T
		// rebuild through sub selectors (innermost last)
		if len(l.Sub) > 0 {
			// current container value
			cont := a.containerRead(ctx.st, l)
			nv = rebuild(cont, l.Sub, v.T)
		}
		switch l.Kind {
		case "field", "cell":
			h := g.stateGet(ctx.st, l.Heap)
			if l.Idx != nil {
				nv = "(store (select " + h + " " + l.Base.T + ") " + l.Idx.T + " " + nv + ")"
			}
			ctx.st[l.Heap] = "(store " + h + " " + l.Base.T + " " + nv + ")"
		case "global":
			ctx.st[l.Heap] = nv
		case "sliceidx":
			g.problem("%s: store through slice element at %s is outside the verified subset (slice aliasing)", a.key, g.pos(pos))
		}
		a.nameState(ctx, l.Heap)
		return
	}
	pt := p.G.Underlying().(*types.Pointer)
	elem := pt.Elem()
	if nt, ok := types.Unalias(elem).(*types.Named); ok {
		if st2, ok := nt.Underlying().(*types.Struct); ok {
			ss := g.w.structSorts[g.w.sortOf(elem)]
			for i := 0; i < st2.NumFields(); i++ {
				hv, _ := g.w.fieldHeap(namedKey(nt), st2, i)
				ctx.st[hv] = "(store " + g.stateGet(ctx.st, hv) + " " + p.T + " (" + ss.Fields[i] + " " + v.T + "))"
				a.nameState(ctx, hv)
			}
			return
		}
	}
	s := g.w.sortOf(elem)
	v = a.coerce(v, s)
	hv := g.w.cellHeap(s)
	ctx.st[hv] = "(store " + g.stateGet(ctx.st, hv) + " " + p.T + " " + v.T + ")"
	a.nameState(ctx, hv)
}

// nameState replaces a large state term by a named constant.
func (a *Act) nameState(ctx *blockCtx, hv string) {
	t := ctx.st[hv]
	if len(t) > 80 {
		n := a.g.fresh(hv, a.g.w.heapVars[hv])
		a.g.fact("(= " + n + " " + t + ")")
		ctx.st[hv] = n
	}
}

func (a *Act) containerRead(st State, l *LVal) string {
	g := a.g
	var t string
	switch l.Kind {
	case "field", "cell":
		t = "(select " + g.stateGet(st, l.Heap) + " " + l.Base.T + ")"
		if l.Idx != nil {
			t = "(select " + t + " " + l.Idx.T + ")"
		}
	case "global":
		t = g.stateGet(st, l.Heap)
	}
	return t
}

func rebuild(cont string, subs []subSel, v string) string {
	if len(subs) == 0 {
		return v
	}
	s := subs[0]
	var parts []string
	for _, f := range s.All {
		if f == s.Field {
			parts = append(parts, rebuild("("+f+" "+cont+")", subs[1:], v))
		} else {
			parts = append(parts, "("+f+" "+cont+")")
		}
	}
	return "(" + s.Cons + " " + strings.Join(parts, " ") + ")"
}

// coerce adapts nil constants to the wanted sort.
func (a *Act) coerce(v Val, s Sort) Val {
	if v.S == s {
		return v
	}
	if v.T == "iface_nil" || v.T == "ref_nil" || v.T == "0" {
		return Val{T: a.g.w.zeroSort(s), S: s, G: v.G}
	}
	return v
}

func (a *Act) binop(ctx *blockCtx, x *ssa.BinOp) {
	g := a.g
	l := a.val(x.X)
	r := a.val(x.Y)
	if l.S != r.S {
		l = a.coerce(l, r.S)
		r = a.coerce(r, l.S)
	}
	var out Val
	switch x.Op {
	case token.ADD:
		if l.S == "Str" {
			out = Val{T: "(sconcat " + l.T + " " + r.T + ")", S: "Str"}
		} else {
			out = intT("(+ " + l.T + " " + r.T + ")")
		}
	case token.SUB:
		out = intT("(- " + l.T + " " + r.T + ")")
	case token.MUL:
		out = intT("(* " + l.T + " " + r.T + ")")
	case token.QUO:
		g.oblige("div", a.key+"/div/zero", ctx.reach, not("(= "+r.T+" 0)"), "division by zero", g.pos(x.Pos()), a.safetyProps())
		// Go truncates toward zero; SMT div floors. Equal for non-negative operands.
		out = intT("(ite (and (>= " + l.T + " 0) (> " + r.T + " 0)) (div " + l.T + " " + r.T + ") (f_goquo " + l.T + " " + r.T + "))")
		g.extraDecl("f_goquo", "(declare-fun f_goquo (Int Int) Int)")
	case token.REM:
		g.oblige("div", a.key+"/div/zero", ctx.reach, not("(= "+r.T+" 0)"), "division by zero", g.pos(x.Pos()), a.safetyProps())
		out = intT("(ite (and (>= " + l.T + " 0) (> " + r.T + " 0)) (mod " + l.T + " " + r.T + ") (f_gorem " + l.T + " " + r.T + "))")
		g.extraDecl("f_gorem", "(declare-fun f_gorem (Int Int) Int)")
	case token.EQL:
		out = boolT("(= " + l.T + " " + r.T + ")")
	case token.NEQ:
		out = boolT(not("(= " + l.T + " " + r.T + ")"))
	case token.LSS, token.LEQ, token.GTR, token.GEQ:
		if l.S == "Str" {
			g.extraDecl("f_strless", "(declare-fun f_strless (Str Str) Bool)")
			switch x.Op {
			case token.LSS:
				out = boolT("(f_strless " + l.T + " " + r.T + ")")
			case token.GTR:
				out = boolT("(f_strless " + r.T + " " + l.T + ")")
			case token.LEQ:
				out = boolT(not("(f_strless " + r.T + " " + l.T + ")"))
			default:
				out = boolT(not("(f_strless " + l.T + " " + r.T + ")"))
			}
		} else {
			out = boolT("(" + x.Op.String() + " " + l.T + " " + r.T + ")")
		}
	default:
		g.problem("%s: unsupported binary op %s at %s", a.key, x.Op, g.pos(x.Pos()))
		s := g.w.sortOf(x.Type())
		out = Val{T: g.fresh("binop", s), S: s}
	}
	if out.S == "Int" && (x.Op == token.ADD || x.Op == token.SUB || x.Op == token.MUL) {
		if bt, ok := x.Type().Underlying().(*types.Basic); ok && (bt.Kind() == types.Int || bt.Kind() == types.Int64) && a.g.spec != nil && a.g.spec.NoPanic {
			g.oblige("overflow", a.key+"/overflow", ctx.reach, and("(<= (- 9223372036854775808) "+out.T+")", "(<= "+out.T+" 9223372036854775807)"), "int arithmetic stays within 64 bits", g.pos(x.Pos()), a.safetyProps())
		}
	}
	out.G = x.Type()
	a.set(x, out)
}

func (a *Act) convert(ctx *blockCtx, x *ssa.Convert) {
	g := a.g
	v := a.val(x.X)
	from := g.w.sortOf(x.X.Type())
	to := g.w.sortOf(x.Type())
	switch {
	case from == to:
		v.G = x.Type()
		a.set(x, v)
	case from == "Int" && to == "Str":
		g.extraDecl("f_runestr", "(declare-fun f_runestr (Int) Str)")
		a.set(x, Val{T: "(f_runestr " + v.T + ")", S: "Str", G: x.Type()})
	case from == "Str" && to == "(Slc Int)":
		a.set(x, Val{T: g.bytesOf(v.T), S: to, G: x.Type()})
	case from == "(Slc Int)" && to == "Str":
		a.set(x, Val{T: "(" + g.strofFn() + " " + v.T + ")", S: "Str", G: x.Type()})
	default:
		g.problem("%s: unsupported conversion %s -> %s at %s", a.key, x.X.Type(), x.Type(), g.pos(x.Pos()))
		a.set(x, Val{T: g.fresh("conv", to), S: to, G: x.Type()})
	}
}

func (a *Act) box(v Val, from types.Type, to types.Type) Val {
	g := a.g
	if _, isIface := from.Underlying().(*types.Interface); isIface {
		v.G = to
		return v
	}
	s := g.w.sortOf(from)
	v = a.coerce(v, s)
	t := "(" + g.w.boxFn(s) + "_" + fmt.Sprint(g.w.typeID(from)) + " " + v.T + ")"
	// one box function per (sort, dynamic type)
	if g.boxed == nil {
		g.boxed = map[string]Val{}
	}
	ov := v
	if ov.G == nil {
		ov.G = from
	}
	g.boxed[t] = ov
	fn := g.w.boxFn(s) + "_" + fmt.Sprint(g.w.typeID(from))
	g.extraDecl(fn, "(declare-fun "+fn+" ("+s+") Iface)")
	g.fact(and("(= (dyntype "+t+") "+smtInt(int64(g.w.typeID(from)))+")", "(= ("+g.w.payFn(s)+" "+t+") "+v.T+")", not("(= "+t+" iface_nil)")))
	return Val{T: t, S: "Iface", G: to}
}

func (a *Act) typeAssert(ctx *blockCtx, x *ssa.TypeAssert) {
	g := a.g
	v := a.val(x.X)
	if _, isIface := x.AssertedType.Underlying().(*types.Interface); isIface {
		ok := g.fresh("ta_ok", "Bool")
		if !x.CommaOk {
			g.problem("%s: interface-to-interface assertion without comma-ok at %s", a.key, g.pos(x.Pos()))
			a.set(x, Val{T: v.T, S: "Iface", G: x.AssertedType})
			return
		}
		a.tuples[x] = []Val{{T: v.T, S: "Iface", G: x.AssertedType}, boolT(ok)}
		a.set(x, Val{T: "$tuple", S: "Tuple"})
		return
	}
	s := g.w.sortOf(x.AssertedType)
	ok := "(= (dyntype " + v.T + ") " + smtInt(int64(g.w.typeID(x.AssertedType))) + ")"
	pv := Val{T: "(" + g.w.payFn(s) + " " + v.T + ")", S: s, G: x.AssertedType}
	if x.CommaOk {
		// value is zero when !ok
		nm := g.fresh("ta", s)
		g.fact("(= " + nm + " (ite " + ok + " " + pv.T + " " + g.w.zeroSort(s) + "))")
		pv.T = nm
		a.tuples[x] = []Val{pv, boolT(ok)}
		a.set(x, Val{T: "$tuple", S: "Tuple"})
		return
	}
	g.oblige("typeassert", a.key+"/typeassert", ctx.reach, ok, "type assertion holds", g.pos(x.Pos()), a.safetyProps())
	a.set(x, pv)
}

func (g *Gen) mapRead(st State, m Val, k Val, mt *types.Map) Val {
	hv, _, vs := g.w.mapHeap(mt)
	_ = hv
	ks := g.w.sortOf(mt.Key())
	t := "(" + g.mgetFn(ks, vs) + " " + g.mapvalTerm(st, m, mt) + " " + k.T + ")"
	return Val{T: t, S: vs, G: mt.Elem()}
}

func (a *Act) lookup(ctx *blockCtx, x *ssa.Lookup) {
	g := a.g
	bv := a.val(x.X)
	kv := a.val(x.Index)
	if bv.S == "Str" {
		g.oblige("bounds", a.key+"/bounds/strindex", ctx.reach, and("(<= 0 "+kv.T+")", "(< "+kv.T+" (slen "+bv.T+"))"), "string index in range", g.pos(x.Pos()), a.safetyProps())
		g.fact(implies(ctx.reach, and("(<= 0 "+kv.T+")", "(< "+kv.T+" (slen "+bv.T+"))")))
		a.set(x, intT("(sat "+bv.T+" "+kv.T+")"))
		return
	}
	mt := x.X.Type().Underlying().(*types.Map)
	v := g.mapRead(ctx.st, bv, kv, mt)
	if len(v.T) > 60 {
		n := g.fresh("mapget", v.S)
		g.fact("(= " + n + " " + v.T + ")")
		v.T = n
	}
	g.assumeType(v)
	if x.CommaOk {
		ok := "(select (map_dom " + g.mapvalTerm(ctx.st, bv, mt) + ") " + kv.T + ")"
		a.tuples[x] = []Val{v, boolT(ok)}
		a.set(x, Val{T: "$tuple", S: "Tuple"})
		return
	}
	a.set(x, v)
}

func (a *Act) slice(ctx *blockCtx, x *ssa.Slice) {
	g := a.g
	bv := a.val(x.X)
	lo := "0"
	if x.Low != nil {
		lo = a.val(x.Low).T
	}
	switch t := x.X.Type().Underlying().(type) {
	case *types.Basic: // string
		hi := "(slen " + bv.T + ")"
		if x.High != nil {
			hi = a.val(x.High).T
		}
		goal := and("(<= 0 "+lo+")", "(<= "+lo+" "+hi+")", "(<= "+hi+" (slen "+bv.T+"))")
		g.oblige("bounds", a.key+"/bounds/strslice", ctx.reach, goal, "string slice bounds in range", g.pos(x.Pos()), a.safetyProps())
		g.fact(implies(ctx.reach, goal))
		a.set(x, Val{T: "(substr " + bv.T + " " + lo + " " + hi + ")", S: "Str", G: x.Type()})
	case *types.Slice:
		hi := "(slc_len " + bv.T + ")"
		if x.High != nil {
			hi = a.val(x.High).T
		}
		if lo != "0" {
			g.problem("%s: slice expression with non-zero low bound at %s is outside the verified subset", a.key, g.pos(x.Pos()))
		}
		a.set(x, Val{T: "((as mk_slc " + bv.S + ") (slc_arr " + bv.T + ") " + hi + ")", S: bv.S, G: x.Type()})
	case *types.Pointer:
		ar := t.Elem().Underlying().(*types.Array)
		arrV := g.load(ctx.st, bv)
		hi := fmt.Sprint(ar.Len())
		kl := int(ar.Len())
		if x.High != nil {
			hi = a.val(x.High).T
			kl = -1
		}
		if lo != "0" {
			g.problem("%s: slice of array with non-zero low bound at %s", a.key, g.pos(x.Pos()))
		}
		s := g.w.sortOf(x.Type())
		v := Val{T: "((as mk_slc " + s + ") " + arrV.T + " " + hi + ")", S: s, G: x.Type()}
		if kl >= 0 {
			a.knownLen(v.T, kl)
		}
		a.set(x, v)
	default:
		g.problem("%s: unsupported slice at %s", a.key, g.pos(x.Pos()))
	}
}

func (a *Act) knownLen(t string, n int) { a.g.knownLens[t] = n }

// ---------------------------------------------------------------------------
// range over maps / strings

func (a *Act) rangeInit(ctx *blockCtx, x *ssa.Range) {
	g := a.g
	v := a.val(x.X)
	it := &mapIter{m: v}
	if mt, ok := x.X.Type().Underlying().(*types.Map); ok {
		it.mt = mt
		k := g.w.sortOf(mt.Key())
		it.seen = "ITER_" + sanitize(a.key) + "_" + x.Name()
		g.w.heapVars[it.seen] = "(Array " + k + " Bool)"
		ctx.st[it.seen] = "((as const (Array " + k + " Bool)) false)"
	} else {
		it.isStr = true
		it.seen = "ITERPOS_" + sanitize(a.key) + "_" + x.Name()
		g.w.heapVars[it.seen] = "Int"
		ctx.st[it.seen] = "0"
	}
	a.iters[x] = it
	a.set(x, Val{T: "0", S: "Int", G: x.Type()})
}

func (a *Act) rangeNext(ctx *blockCtx, x *ssa.Next) {
	g := a.g
	it := a.iters[x.Iter]
	if it == nil {
		g.problem("%s: next on unknown iterator", a.key)
		return
	}
	if it.isStr {
		g.problem("%s: range over string at %s is outside the verified subset", a.key, g.pos(x.Pos()))
		a.tuples[x] = []Val{boolT(g.fresh("ok", "Bool")), intT(g.fresh("i", "Int")), intT(g.fresh("r", "Int"))}
		a.set(x, Val{T: "$tuple", S: "Tuple"})
		return
	}
	hv, ks, vs := g.w.mapHeap(it.mt)
	ok := g.fresh("it_ok", "Bool")
	k := g.fresh("it_k", ks)
	seen := g.stateGet(ctx.st, it.seen)
	dom := "(map_dom (select " + g.stateGet(ctx.st, hv) + " " + it.m.T + "))"
	val := "(select (map_val (select " + g.stateGet(ctx.st, hv) + " " + it.m.T + ")) " + k + ")"
	// ok => k in dom, not yet seen ; !ok => every key in dom was seen
	qk := g.freshName("qk")
	g.fact(implies(ctx.reach, and(
		implies(ok, and(not("(= "+it.m.T+" ref_nil)"), "(select "+dom+" "+k+")", not("(select "+seen+" "+k+")"))),
		implies(not(ok), or("(= "+it.m.T+" ref_nil)", "(forall (("+qk+" "+ks+")) (! (=> (select "+dom+" "+qk+") (select "+seen+" "+qk+")) :pattern ((select "+dom+" "+qk+"))))")))))
	ns := g.fresh(it.seen, g.w.heapVars[it.seen])
	g.fact("(= " + ns + " (ite " + ok + " (store " + seen + " " + k + " true) " + seen + "))")
	ctx.st[it.seen] = ns
	it.lastKey = Val{T: k, S: ks, G: it.mt.Key()}
	// the delivered value is the map's value at the delivered key
	mvT := g.mapvalTerm(ctx.st, it.m, it.mt)
	g.fact(implies(and(ctx.reach, ok), and("(= "+val+" ("+g.mgetFn(ks, vs)+" "+mvT+" "+k+"))", "(select (map_dom "+mvT+") "+k+")")))
	a.tuples[x] = []Val{boolT(ok), {T: k, S: ks, G: it.mt.Key()}, {T: val, S: vs, G: it.mt.Elem()}}
	a.set(x, Val{T: "$tuple", S: "Tuple"})
}

// spawn: `go f(args)` with a contracted f: the spawner must establish f's
// precondition; nothing is assumed about f's effects (it runs concurrently).
func (a *Act) spawn(ctx *blockCtx, x *ssa.Go) {
	g := a.g
	callee := x.Call.StaticCallee()
	if callee == nil && !x.Call.IsInvoke() {
		if mc, ok := x.Call.Value.(*ssa.MakeClosure); ok {
			callee = mc.Fn.(*ssa.Function)
		}
	}
	if callee == nil || x.Call.IsInvoke() {
		g.problem("%s: go statement with dynamic callee at %s is outside the verified subset", a.key, g.pos(x.Pos()))
		return
	}
	key := funcKey(callee)
	spec := g.w.effectiveSpec(key)
	if spec == nil {
		g.problem("%s: go statement spawning uncontracted %s at %s", a.key, key, g.pos(x.Pos()))
		return
	}
	vars := map[string]Val{}
	for i, p := range callee.Params {
		vars[p.Name()] = a.val(x.Call.Args[i])
	}
	env := &Env{g: g, vars: vars, st: ctx.st, old: ctx.st, pkg: spec.Pkg, aliasKey: spec.Key}
	for k, c := range spec.Requires {
		t := a.trClauseEnv(env, c, "requires of spawned "+key)
		g.oblige("pre", fmt.Sprintf("%s/go:%s/pre%d%s", a.key, shortName(key), k, labelSuffix(c)), ctx.reach, t, c.Src, g.pos(x.Pos()), a.callProps(c, spec))
	}
	g.usedAssumed["go statement: "+key+" runs concurrently; only its precondition is checked at the spawn point (sequentialisation trusted)"] = true
}

// assumeType: typing facts of Go values read from memory (slice lengths are non-negative).
func (g *Gen) assumeType(v Val) {
	switch {
	case strings.HasPrefix(v.S, "(Slc "):
		g.fact("(>= (slc_len " + v.T + ") 0)")
	case strings.HasPrefix(v.S, "S_"):
		ss := g.w.structSorts[v.S]
		if ss == nil {
			return
		}
		for i, fs := range ss.Sorts {
			if strings.HasPrefix(fs, "(Slc ") {
				g.fact("(>= (slc_len (" + ss.Fields[i] + " " + v.T + ")) 0)")
			}
		}
	}
}

// mapvalTerm: the mathematical value of a Go map (a nil map is the empty map), as an
// uninterpreted function of the map heap with a defining axiom (usable in triggers).
func (g *Gen) mapvalTerm(st State, m Val, mt *types.Map) string {
	hv, ks, vs := g.w.mapHeap(mt)
	n := "mapval_" + sanitize(ks) + "_" + sanitize(vs)
	empty := "(mk_map ((as const (Array " + ks + " Bool)) false) " + g.w.constArr(ks, vs) + ")"
	g.extraDecl(n, "(declare-fun "+n+" ((Array Ref (MapV "+ks+" "+vs+")) Ref) (MapV "+ks+" "+vs+"))\n(assert (forall ((h (Array Ref (MapV "+ks+" "+vs+"))) (m Ref)) (! (= ("+n+" h m) (ite (= m ref_nil) "+empty+" (select h m))) :pattern (("+n+" h m)))))")
	return "(" + n + " " + g.stateGet(st, hv) + " " + m.T + ")"
}

func (g *Gen) strofFn() string {
	g.w.elemSorts["Int"] = true
	g.extraDecl("f_strof", "(declare-fun f_strof ((Slc Int)) Str)\n(assert (forall ((b (Slc Int))) (! (=> (>= (slc_len b) 0) (= (slen (f_strof b)) (slc_len b))) :pattern ((f_strof b)))))\n(assert (forall ((b (Slc Int)) (i Int)) (! (=> (and (<= 0 i) (< i (slc_len b))) (= (sat (f_strof b) i) (select (slc_arr b) i))) :pattern ((sat (f_strof b) i)))))")
	return "f_strof"
}

func (g *Gen) bytesOf(s string) string {
	g.w.elemSorts["Int"] = true
	g.extraDecl("f_bytes", "(declare-fun f_bytes (Str) (Array Int Int))\n(assert (forall ((s Str) (i Int)) (! (= (select (f_bytes s) i) (sat s i)) :pattern ((select (f_bytes s) i)))))")
	g.strofFn()
	// string(([]byte)(s)) == s
	g.extraDecl("f_bytes_rt", "(assert (forall ((s Str)) (! (= (f_strof ((as mk_slc (Slc Int)) (f_bytes s) (slen s))) s) :pattern ((f_bytes s)))))")
	return "((as mk_slc (Slc Int)) (f_bytes " + s + ") (slen " + s + "))"
}
