package main

import (
	"context"

	"encoding/json"
	"fmt"
	"golang.org/x/tools/go/ssa"
	"os"
	"os/exec"
	"path/filepath"
	"runtime"
	"sort"
	"strconv"
	"strings"
	"time"
)

type PropConfig struct {
	Level       string   `json:"level"`       // evidence level: proof | other
	Note        string   `json:"note"`        // explanation used when level is other
	Extra       []string `json:"extra_funcs"` // extra function keys (beyond props tags)
	MinObls     int      `json:"min_obligations"`
	Bounded     []BoundedSpec `json:"bounded"` // bounded stand-ins for parts not brought under contract (labelled bounded, never counted as proved)
	Structural  []string `json:"structural"`  // structural checks
	Assumptions []string `json:"assumptions"` // standing assumptions for the evidence
	NotDecided  []string `json:"not_decided"`
	Validations []string `json:"validations"` // groups of /verif/bin/validate run in the thorough tier (assumed contracts vs real dependencies)
	Witness     string   `json:"witness"` // witness finder run only after an obligation failed, e.g. "parseprobe C08 4"
}

// BoundedSpec: a bounded stand-in. Cmd is a tool under /verif/bin with arguments; the tool prints
// "SEARCH ... evaluated=<n> failures=<m>" and one "FAILING-INPUT <quoted input>: message" per failure.
type BoundedSpec struct {
	Name     string   `json:"name"`
	Quick    []string `json:"quick"`
	Thorough []string `json:"thorough"`
	Bound    string   `json:"bound"`   // the stated bound
	Covers   string   `json:"covers"`  // which part of the property it stands in for
	Oracle   []string `json:"oracle"`  // command that replays one stored input: tool args..., the file is appended
}

type knownFinding struct {
	Prop  string
	Obl   string // obligation name prefix/pattern
	Text  string
	Fixed bool
}

func loadKnownFindings(path string) []knownFinding {
	data, err := os.ReadFile(path)
	if err != nil {
		return nil
	}
	var out []knownFinding
	for _, l := range strings.Split(string(data), "\n") {
		l = strings.TrimSpace(l)
		if l == "" || strings.HasPrefix(l, "#") {
			continue
		}
		kf := knownFinding{Text: l}
		if strings.HasPrefix(l, "fixed:") {
			kf.Fixed = true
		} else if !strings.HasPrefix(l, "finding:") {
			continue
		}
		for _, f := range strings.Fields(l) {
			if strings.HasPrefix(f, "property=") {
				kf.Prop = strings.TrimPrefix(f, "property=")
			}
			if strings.HasPrefix(f, "obligation=") {
				kf.Obl = strings.TrimPrefix(f, "obligation=")
			}
		}
		out = append(out, kf)
	}
	return out
}

func hasProp(ps []string, id string) bool {
	for _, p := range ps {
		if p == id {
			return true
		}
	}
	return false
}

func cmdCheck(args []string) {
	if len(args) < 1 {
		fmt.Fprintln(os.Stderr, "usage: spokvc check <ID> [quick|thorough]")
		os.Exit(2)
	}
	id := args[0]
	tier := "quick"
	if len(args) > 1 {
		tier = args[1]
	}
	if t := os.Getenv("VERIF_TIER"); t != "" && len(args) < 2 {
		tier = t
	}
	seed := 0
	if s := os.Getenv("VERIF_SEED"); s != "" {
		seed, _ = strconv.Atoi(s)
	}
	start := time.Now()
	var cfgs map[string]PropConfig
	data, err := os.ReadFile(filepath.Join(verifDir, "contracts", "properties.json"))
	if err == nil {
		err = json.Unmarshal(data, &cfgs)
	}
	if err != nil {
		fmt.Fprintln(os.Stderr, "properties.json:", err)
		os.Exit(2)
	}
	cfg, ok := cfgs[id]
	if !ok {
		fmt.Fprintln(os.Stderr, "no configuration for", id)
		os.Exit(2)
	}
	os.RemoveAll(filepath.Join(verifDir, "replays", id))
	w, err := setup()
	if err != nil {
		fmt.Fprintln(os.Stderr, "setup failed:", err)
		// a tree that does not load is undecided, not a pass
		writeFailureEvidence(id, tier, seed, "load failure: "+err.Error(), time.Since(start).Seconds())
		fmt.Printf("VIOLATION property=%s replay=%s no-failing-input-found\n", id, writeReplay(id, "load-failure", map[string]interface{}{"obligation": "load", "reason": err.Error()}))
		os.Exit(1)
	}
	// functions serving this property
	var keys []string
	for k, s := range w.funcSpecs {
		if strings.HasPrefix(k, "functype:") || s.Assumed || s.Trusted != "" {
			continue
		}
		eff := w.effectiveSpec(k)
		serves := hasProp(eff.Props, id)
		if !serves {
			for _, c := range append(append([]Clause{}, eff.Requires...), eff.Ensures...) {
				if hasProp(c.Props, id) {
					serves = true
				}
			}
			for _, an := range eff.Anchors {
				for _, c := range an.Assert {
					if hasProp(c.Props, id) {
						serves = true
					}
				}
			}
		}
		for _, e := range cfg.Extra {
			if e == k {
				serves = true
			}
		}
		if serves {
			keys = append(keys, k)
		}
	}
	// close the set under contracted callees in /repo (their postconditions are assumed by the callers)
	inSet := map[string]bool{}
	for _, k := range keys {
		inSet[k] = true
	}
	work := append([]string{}, keys...)
	for len(work) > 0 {
		k := work[len(work)-1]
		work = work[:len(work)-1]
		fn := w.prog.funcs[k]
		if fn == nil {
			continue
		}
		var visit func(f *ssa.Function, depth int)
		visit = func(f *ssa.Function, depth int) {
			for _, b := range f.Blocks {
				for _, ins := range b.Instrs {
					var cc *ssa.CallCommon
					switch x := ins.(type) {
					case *ssa.Call:
						cc = &x.Call
					case *ssa.Defer:
						cc = &x.Call
					case *ssa.Go:
						cc = &x.Call
					}
					if cc == nil {
						continue
					}
					callee := cc.StaticCallee()
					if callee == nil {
						if mc, ok := cc.Value.(*ssa.MakeClosure); ok {
							callee = mc.Fn.(*ssa.Function)
						}
					}
					if callee == nil {
						continue
					}
					ck := funcKey(callee)
					if s, ok := w.funcSpecs[ck]; ok {
						if !s.Assumed && s.Trusted == "" && !inSet[ck] {
							inSet[ck] = true
							keys = append(keys, ck)
							work = append(work, ck)
						}
					} else if depth < maxInlineDepth && callee.Blocks != nil && callee.Pkg != nil && strings.HasPrefix(callee.Pkg.Pkg.Path(), "github.com/FollowTheProcess/spok") {
						visit(callee, depth+1) // inlined helper: look through it
					}
				}
			}
		}
		visit(fn, 0)
	}
	sort.Strings(keys)
	var obls []*Obligation
	assumed := map[string]bool{}
	dflt := map[string]bool{}
	inlined := map[string]bool{}
	var trustedFns []string
	for k, s := range w.funcSpecs {
		if s.Trusted != "" && hasProp(s.Props, id) {
			trustedFns = append(trustedFns, k+" (trusted, body not verified: "+s.Trusted+")")
		}
	}
	usedLemmas := map[string]bool{}
	gens := w.verifyAll(keys)
	for _, k := range keys {
		g := gens[k]
		for _, o := range g.obls {
			// clause-level tags only name clauses: every obligation of a function that serves the
			// property is checked, because assertions, invariants and callee postconditions are
			// assumed downstream regardless of their tag
			obls = append(obls, o)
		}
		for a := range g.usedAssumed {
			assumed[a] = true
		}
		for a := range g.usedDefault {
			dflt[a] = true
		}
		for a := range g.usedInlined {
			inlined[a] = true
		}
		for l := range g.usedLemmas {
			usedLemmas[l] = true
		}
	}
	// lemmas proved by induction are part of the argument of every function that uses them
	var lemmaKeys []string
	for l := range usedLemmas {
		if lm := w.lemmas[l]; lm != nil && lm.Induct != "" {
			lemmaKeys = append(lemmaKeys, l)
		}
	}
	sort.Strings(lemmaKeys)
	for _, l := range lemmaKeys {
		g := w.verifyLemma(w.lemmas[l])
		obls = append(obls, g.obls...)
		keys = append(keys, "lemma."+l)
	}
	timeout := 10
	all := false
	if tier == "thorough" {
		timeout = 60
		all = true
	}
	dir, _ := os.MkdirTemp("", "spokvc-"+id+"-")
	if kd := os.Getenv("SPOKVC_KEEPDIR"); kd != "" {
		dir = kd
		os.MkdirAll(dir, 0o755)
	} else {
		defer os.RemoveAll(dir)
	}
	t0 := time.Now()
	dischargeAll(w, obls, dir, timeout, all, runtime.NumCPU())
	solveS := time.Since(t0).Seconds()

	kfs := loadKnownFindings(filepath.Join(verifDir, "known_findings.txt"))
	byBackend := map[string]int{}
	nDis, nSmoke := 0, 0
	var failed []*Obligation
	var solverTime float64
	for _, o := range obls {
		if os.Getenv("SPOKVC_DBG") != "" && strings.Contains(o.Name, os.Getenv("SPOKVC_DBG")) {
			fmt.Fprintln(os.Stderr, "DBG", o.Name, o.Status, o.Solver, o.Detail, "goal:", o.Goal[:min(len(o.Goal), 200)])
		}
		if o.Status == "discharged" {
			nDis++
			name := o.Solver
			if strings.HasPrefix(name, "smoke") {
				name = "smoke"
				nSmoke++
			}
			byBackend[name]++
			solverTime += o.Time
		} else if o.Status != "skipped" { // "skipped": not attempted in the selftest's fail-fast mode
			failed = append(failed, o)
		}
	}
	violations := 0
	known := 0
	var lines []string
	if len(obls) == 0 || (cfg.MinObls > 0 && len(obls) < cfg.MinObls/2) {
		violations++
		p := writeReplay(id, "vacuity", map[string]interface{}{"obligation": "obligation-count", "reason": fmt.Sprintf("only %d obligations generated, expected about %d: contracts no longer bind to the code", len(obls), cfg.MinObls)})
		lines = append(lines, fmt.Sprintf("VIOLATION property=%s replay=%s no-failing-input-found", id, p))
	}
	// witness finder: only after an obligation has failed, look for a real failing input
	witnessInput, witnessMsg, witnessCmd := "", "", ""
	if cfg.Witness != "" && len(failed) > 0 && os.Getenv("SPOKVC_SELFTEST") == "" {
		witnessInput, witnessMsg, witnessCmd = runWitness(id, cfg.Witness)
	}
	for _, o := range failed {
		isKnown := false
		for _, kf := range kfs {
			if !kf.Fixed && kf.Prop == id && kf.Obl != "" && obligationMatches(kf.Obl, o.Name) {
				isKnown = true
				lines = append(lines, fmt.Sprintf("KNOWN-FINDING: property=%s %s", id, strings.TrimPrefix(kf.Text, "finding: ")))
			}
		}
		if isKnown {
			known++
			continue
		}
		violations++
		rep := map[string]interface{}{
			"property": id, "obligation": o.Name, "kind": o.Kind, "function": o.Func, "contract_clause": o.Src, "position": o.Pos,
			"solver_results": o.Detail, "solver_output": o.Model,
			"meaning": "this verification condition was generated from the current /repo source and could not be discharged; on the unchanged tree it is discharged",
			"rerun":   fmt.Sprintf("/verif/bin/spokvc verify -v -only '%s' '%s'", o.Name, o.Func),
		}
		suffix := " no-failing-input-found"
		if witnessInput != "" {
			rep["failing_input"] = witnessInput
			rep["oracle_verdict_on_real_code"] = witnessMsg
			rep["replay_cmd"] = witnessCmd
			suffix = ""
		} else if cfg.Witness != "" {
			rep["witness_search"] = "bounded witness search (" + cfg.Witness + ") found no input on which the property-level oracle fails against the real code"
		}
		p := writeReplay(id, o.Name, rep)
		lines = append(lines, fmt.Sprintf("VIOLATION property=%s replay=%s%s", id, p, suffix))
	}
	// structural side conditions
	nStruct, nStructOK := 0, 0
	for _, sc := range cfg.Structural {
		for _, r := range w.runStructural(sc) {
			nStruct++
			if r.OK {
				nStructOK++
				continue
			}
			violations++
			p := writeReplay(id, "structural-"+r.Name, map[string]interface{}{"property": id, "obligation": "structural/" + r.Name, "reason": r.Detail, "meaning": "a structural side condition checked on the SSA of the working tree does not hold"})
			lines = append(lines, fmt.Sprintf("VIOLATION property=%s replay=%s no-failing-input-found", id, p))
		}
	}
	// bounded stand-ins (labelled bounded; a failure comes with the failing input, replayed on the real code by the tool)
	var boundedEv []interface{}
	for _, bs := range cfg.Bounded {
		args := bs.Quick
		if tier == "thorough" && len(bs.Thorough) > 0 {
			args = bs.Thorough
		}
		if len(args) == 0 {
			continue
		}
		limit := 10 * time.Minute
		if tier == "thorough" {
			limit = 60 * time.Minute
		}
		bctx, bcancel := context.WithTimeout(context.Background(), limit)
		t0b := time.Now()
		out, _ := exec.CommandContext(bctx, filepath.Join(verifDir, "bin", args[0]), args[1:]...).CombinedOutput()
		bcancel()
		evaluated, nfail, sawSearch := "", "", false
		var firstIn, firstMsg string
		for _, l := range strings.Split(string(out), "\n") {
			if strings.HasPrefix(l, "SEARCH ") {
				sawSearch = true
				for _, kv := range strings.Fields(l) {
					if strings.HasPrefix(kv, "evaluated=") {
						evaluated = strings.TrimPrefix(kv, "evaluated=")
					}
					if strings.HasPrefix(kv, "cases=") {
						evaluated = strings.TrimPrefix(kv, "cases=")
					}
					if strings.HasPrefix(kv, "histories=") {
						evaluated = strings.TrimPrefix(kv, "histories=")
					}
					if strings.HasPrefix(kv, "failures=") {
						nfail = strings.TrimPrefix(kv, "failures=")
					}
				}
			}
			if strings.HasPrefix(l, "FAILING-HISTORY ") && firstIn == "" {
				firstIn = strings.TrimPrefix(l, "FAILING-HISTORY ")
				firstMsg = "the property-level oracle fails on this history against the real code"
			}
			if strings.HasPrefix(l, "FAILING-CASE ") && firstIn == "" {
				firstIn = strings.TrimPrefix(l, "FAILING-CASE ")
				firstMsg = "the property-level oracle fails on this case against the real code"
			}
			if strings.HasPrefix(l, "FAILING-INPUT ") && firstIn == "" {
				rest := strings.TrimPrefix(l, "FAILING-INPUT ")
				if q, err := strconv.QuotedPrefix(rest); err == nil {
					firstIn, _ = strconv.Unquote(q)
					firstMsg = strings.TrimPrefix(rest[len(q):], ": ")
				}
			}
		}
		if sawSearch && nfail == "" && firstIn == "" {
			nfail = "0"
		}
		entry := map[string]interface{}{"name": bs.Name, "kind": "BOUNDED stand-in (not a proof)", "bound": bs.Bound, "covers": bs.Covers, "cmd": strings.Join(args, " "), "evaluated": evaluated, "failures": nfail, "wall_s": time.Since(t0b).Seconds()}
		boundedEv = append(boundedEv, entry)
		if !sawSearch || nfail != "0" {
			isKnown := false
			for _, kf := range kfs {
				if !kf.Fixed && kf.Prop == id && kf.Obl == "bounded/"+bs.Name && firstIn != "" && strings.Contains(kf.Text, strconv.Quote(firstIn)) {
					isKnown = true
					lines = append(lines, fmt.Sprintf("KNOWN-FINDING: property=%s %s", id, strings.TrimPrefix(kf.Text, "finding: ")))
				}
			}
			if isKnown {
				known++
				continue
			}
			violations++
			rep := map[string]interface{}{"property": id, "obligation": "bounded/" + bs.Name, "bound": bs.Bound, "meaning": "the bounded stand-in found an input on which the property-level oracle fails against the real code"}
			suffix := " no-failing-input-found"
			if firstIn != "" {
				dir := filepath.Join(verifDir, "replays", id)
				os.MkdirAll(dir, 0o755)
				f := filepath.Join(dir, "failing-input-"+sanitize(bs.Name)+".txt")
				os.WriteFile(f, []byte(firstIn), 0o644)
				rep["failing_input"] = firstIn
				rep["failing_input_file"] = f
				rep["oracle_verdict_on_real_code"] = firstMsg
				if len(bs.Oracle) > 0 {
					rep["replay_cmd"] = filepath.Join(verifDir, "bin", bs.Oracle[0]) + " " + strings.Join(bs.Oracle[1:], " ") + " " + f
				}
				suffix = ""
			} else {
				rep["reason"] = "the stand-in did not complete or reported failures without an input"
				rep["output_tail"] = tailString(string(out), 2000)
			}
			p := writeReplay(id, "bounded-"+bs.Name, rep)
			lines = append(lines, fmt.Sprintf("VIOLATION property=%s replay=%s%s", id, p, suffix))
		}
	}
	// thorough tier: the assumed contracts this property rests on are exercised against the real
	// dependencies (bounded unless the group's domain is finite; labelled as such)
	var validations []interface{}
	if tier == "thorough" && len(cfg.Validations) > 0 {
		vctx, vcancel := context.WithTimeout(context.Background(), 15*time.Minute)
		out, _ := exec.CommandContext(vctx, filepath.Join(verifDir, "bin", "validate"), cfg.Validations...).CombinedOutput()
		vcancel()
		seenG := map[string]bool{}
		for _, l := range strings.Split(string(out), "\n") {
			if !strings.HasPrefix(l, "VALIDATE ") {
				continue
			}
			fields := map[string]string{}
			rest := strings.TrimPrefix(l, "VALIDATE ")
			first := ""
			if i := strings.Index(rest, " first="); i >= 0 {
				first = rest[i+len(" first="):]
				rest = rest[:i]
			}
			for _, kv := range strings.Fields(rest) {
				if i := strings.Index(kv, "="); i > 0 {
					fields[kv[:i]] = kv[i+1:]
				}
			}
			seenG[fields["group"]] = true
			kind := "bounded sample"
			if fields["complete"] == "true" {
				kind = "complete sweep of a finite domain"
			}
			validations = append(validations, map[string]string{"group": fields["group"], "cases": fields["cases"], "failures": fields["failures"], "kind": kind, "first_failure": first})
			if fields["failures"] != "0" {
				violations++
				p := writeReplay(id, "validation-"+fields["group"], map[string]interface{}{"property": id, "obligation": "validation/" + fields["group"], "reason": first, "meaning": "an ASSUMED contract the proof of this property rests on is false for the real dependency (validation group " + fields["group"] + ")", "replay_cmd": "/verif/bin/validate " + fields["group"]})
				lines = append(lines, fmt.Sprintf("VIOLATION property=%s replay=%s no-failing-input-found", id, p))
			}
		}
		for _, gname := range cfg.Validations {
			if !seenG[gname] {
				violations++
				p := writeReplay(id, "validation-"+gname, map[string]interface{}{"property": id, "obligation": "validation/" + gname, "reason": "the validation group did not report", "output": string(out)})
				lines = append(lines, fmt.Sprintf("VIOLATION property=%s replay=%s no-failing-input-found", id, p))
			}
		}
	}
	// evidence
	var samples []interface{}
	for i, o := range obls {
		if i%(len(obls)/6+1) == 0 {
			goal := o.Goal
			if len(goal) > 300 {
				goal = goal[:300] + "..."
			}
			samples = append(samples, map[string]string{"obligation": o.Name, "kind": o.Kind, "clause": o.Src, "status": o.Status, "solver": o.Solver, "smt_goal": goal})
		}
	}
	var tb []string
	for _, a := range sortedKeys(assumed) {
		tb = append(tb, "assumed contract: "+a)
	}
	for _, a := range sortedKeys(dflt) {
		tb = append(tb, "default frame contract (arbitrary result, no tracked effect): "+a)
	}
	tb = append(tb, trustedFns...)
	tb = append(tb, "go/packages type checker and go/ssa builder (x/tools v0.29.0)", "SMT solvers z3 4.8.12, z3 5.1.0 (z3-new), cvc5 1.0.x", "spokvc VC generator (/verif/spokvc)")
	assumptions := append([]string{}, cfg.Assumptions...)
	assumptions = append(assumptions,
		"machine integers treated as mathematical integers (no overflow obligations generated unless a contract says nopanic)",
		"strings are an uninterpreted sort with length/byte/substring axioms; assumed std contracts listed in coverage.trusted_base",
		"axioms and assumed lemmas in /verif/contracts/shared and /verif/contracts/assumed define the spec functions; they are assumptions, validated by /verif/validate where a validation exists",
		"pointer parameters of functions under contract are assumed non-nil; this is checked at every call site inside verified code")
	for _, nd := range cfg.NotDecided {
		assumptions = append(assumptions, "NOT DECIDED: "+nd)
	}
	level := cfg.Level
	if level == "" {
		level = "proof"
	}
	cov := map[string]interface{}{
		"obligations":              len(obls),
		"discharged":               nDis,
		"failed":                   len(failed),
		"known_findings":           known,
		"checker_cmd":              fmt.Sprintf("/verif/bin/spokvc check %s %s", id, tier),
		"trusted_base":             tb,
		"functions_under_contract": keys,
		"inlined_helpers":          sortedKeys(inlined),
		"contract_names_rebound":   w.aliasNotes,
		"by_backend":               byBackend,
		"smoke_checks_passed":      nSmoke,
		"solver_s":                 solverTime,
		"solve_wall_s":             solveS,
		"samples":                  samples,
		"solver_timeout_s":         timeout,
		"structural_checks":        nStruct,
		"structural_ok":            nStructOK,
		"all_solvers_must_agree":   all,
	}
	{
		// the slowest discharged obligations: a query near the time limit is the unstable one
		type st struct {
			n string
			t float64
			s string
		}
		var sl []st
		for _, o := range obls {
			if o.Status == "discharged" && !o.Smoke {
				sl = append(sl, st{o.Name, o.Time, o.Solver})
			}
		}
		sort.Slice(sl, func(i, j int) bool { return sl[i].t > sl[j].t })
		var top []interface{}
		for i := 0; i < len(sl) && i < 5; i++ {
			top = append(top, map[string]interface{}{"obligation": sl[i].n, "solver": sl[i].s, "seconds": sl[i].t})
		}
		cov["slowest_obligations"] = top
	}
	if len(validations) > 0 {
		cov["assumed_contract_validations"] = validations
	}
	if len(boundedEv) > 0 {
		cov["bounded_stand_ins"] = boundedEv
	}
	if level == "other" {
		cov["explanation"] = cfg.Note
	}
	ev := map[string]interface{}{
		"property_id": id, "tier": tier, "seed": seed, "level": level, "coverage": cov,
		"assumptions": assumptions, "wall_s": time.Since(start).Seconds(), "violations": violations,
	}
	os.MkdirAll(filepath.Join(verifDir, "evidence"), 0o755)
	out, _ := json.MarshalIndent(ev, "", " ")
	if os.Getenv("SPOKVC_SELFTEST") == "" { // the must-fail corpus runs on deliberately broken trees: not evidence
		os.WriteFile(filepath.Join(verifDir, "evidence", id+".json"), out, 0o644)
	}
	for _, l := range lines {
		fmt.Println(l)
	}
	fmt.Printf("property %s: %d functions, %d obligations, %d discharged, %d known findings, %d violations (%.1fs)\n", id, len(keys), len(obls), nDis, known, violations, time.Since(start).Seconds())
	if violations > 0 {
		if os.Getenv("SPOKVC_KEEPDIR") == "" {
			os.RemoveAll(dir) // os.Exit skips the deferred removal
		}
		os.Exit(1)
	}
}

func obligationMatches(pat, name string) bool {
	if pat == name {
		return true
	}
	if strings.HasSuffix(pat, "*") && strings.HasPrefix(name, strings.TrimSuffix(pat, "*")) {
		return true
	}
	return false
}

func writeReplay(id, name string, content map[string]interface{}) string {
	dir := filepath.Join(verifDir, "replays", id)
	os.MkdirAll(dir, 0o755)
	p := filepath.Join(dir, sanitize(name)+".json")
	out, _ := json.MarshalIndent(content, "", " ")
	os.WriteFile(p, out, 0o644)
	return p
}

func writeFailureEvidence(id, tier string, seed int, reason string, wall float64) {
	ev := map[string]interface{}{
		"property_id": id, "tier": tier, "seed": seed, "level": "other",
		"coverage":    map[string]interface{}{"explanation": "check could not run: " + reason, "obligations": 0, "discharged": 0},
		"assumptions": []string{}, "wall_s": wall, "violations": 1,
	}
	os.MkdirAll(filepath.Join(verifDir, "evidence"), 0o755)
	out, _ := json.MarshalIndent(ev, "", " ")
	os.WriteFile(filepath.Join(verifDir, "evidence", id+".json"), out, 0o644)
}

// runWitness runs the bounded witness finder (a property-level oracle against the real code).
func runWitness(id, spec string) (input, msg, cmd string) {
	fs := strings.Fields(spec)
	if len(fs) >= 2 && fs[0] == "histprobe" && fs[1] == "env" {
		bin := filepath.Join(verifDir, "bin", "histprobe")
		wctx, wcancel := context.WithTimeout(context.Background(), 60*time.Second)
		defer wcancel()
		out, _ := exec.CommandContext(wctx, bin, "env", "C13").CombinedOutput()
		for _, l := range strings.Split(string(out), "\n") {
			if strings.HasPrefix(l, "FAILING-CASE ") {
				return strings.TrimPrefix(l, "FAILING-CASE "), "the property-level oracle fails on this case against the real code", bin + " env C13"
			}
		}
		return "", "", ""
	}
	if len(fs) >= 3 && fs[0] == "histprobe" {
		return runHistWitness(id, fs)
	}
	if len(fs) >= 2 && (fs[0] == "hashprobe" || fs[0] == "fsprobe") {
		bin := filepath.Join(verifDir, "bin", fs[0])
		wctx, wcancel := context.WithTimeout(context.Background(), 120*time.Second)
		defer wcancel()
		out, _ := exec.CommandContext(wctx, bin, "search", fs[1]).CombinedOutput()
		for _, l := range strings.Split(string(out), "\n") {
			if strings.HasPrefix(l, "FAILING-CASE ") {
				return strings.TrimPrefix(l, "FAILING-CASE "), "the property-level oracle fails on this case against the real code", bin + " search " + fs[1]
			}
		}
		return "", "", ""
	}
	if len(fs) < 3 || fs[0] != "parseprobe" {
		return "", "", ""
	}
	bin := filepath.Join(verifDir, "bin", "parseprobe")
	wctx, wcancel := context.WithTimeout(context.Background(), 90*time.Second)
	defer wcancel()
	out, _ := exec.CommandContext(wctx, bin, "search", fs[1], fs[2], "1").CombinedOutput()
	for _, l := range strings.Split(string(out), "\n") {
		if strings.HasPrefix(l, "FAILING-INPUT ") {
			rest := strings.TrimPrefix(l, "FAILING-INPUT ")
			// format: "<quoted input>": message
			q, err := strconv.QuotedPrefix(rest)
			if err != nil {
				continue
			}
			in, _ := strconv.Unquote(q)
			dir := filepath.Join(verifDir, "replays", id)
			os.MkdirAll(dir, 0o755)
			f := filepath.Join(dir, "failing-input.txt")
			os.WriteFile(f, []byte(in), 0o644)
			return in, strings.TrimPrefix(rest[len(q):], ": "), bin + " oracle " + fs[1] + " " + f
		}
	}
	return "", "", ""
}

// runHistWitness: bounded search for a failing history against the real file.SpokFile.Run.
func runHistWitness(id string, fs []string) (input, msg, cmd string) {
	bin := filepath.Join(verifDir, "bin", "histprobe")
	wctx, wcancel := context.WithTimeout(context.Background(), 150*time.Second)
	defer wcancel()
	args := append([]string{"search"}, fs[1:]...)
	out, _ := exec.CommandContext(wctx, bin, args...).CombinedOutput()
	for _, l := range strings.Split(string(out), "\n") {
		if strings.HasPrefix(l, "FAILING-HISTORY ") {
			rest := strings.TrimPrefix(l, "FAILING-HISTORY ")
			parts := strings.SplitN(rest, " :: ", 2)
			if len(parts) != 2 {
				continue
			}
			// parts[0]: program=NAME history=op op op
			prog, hist := "", ""
			if i := strings.Index(parts[0], " history="); i >= 0 {
				prog = strings.TrimPrefix(parts[0][:i], "program=")
				hist = parts[0][i+len(" history="):]
			}
			return parts[0], parts[1], bin + " replay " + fs[1] + " " + prog + " " + hist
		}
	}
	return "", "", ""
}

func tailString(s string, n int) string {
	if len(s) <= n {
		return s
	}
	return s[len(s)-n:]
}
