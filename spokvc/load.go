package main

import (
	"fmt"
	"go/types"
	"os"
	"sort"
	"strings"

	"golang.org/x/tools/go/packages"
	"golang.org/x/tools/go/ssa"
	"golang.org/x/tools/go/ssa/ssautil"
)

type Program struct {
	prog   *ssa.Program
	pkgs   []*packages.Package
	spkgs  []*ssa.Package
	funcs  map[string]*ssa.Function // key -> function (repo + deps with source)
	byPkg  map[string]*types.Package
	repoFn []string
}

func funcKey(f *ssa.Function) string {
	if f == nil {
		return "<nil>"
	}
	if f.Parent() != nil {
		// anonymous function: name is parent$N
		p := funcKey(f.Parent())
		n := f.Name()
		if i := strings.LastIndex(n, "$"); i >= 0 {
			return p + n[i:]
		}
		return p + "$" + n
	}
	if o := f.Origin(); o != nil && o != f {
		return funcKey(o)
	}
	var pkg *types.Package
	if f.Pkg != nil {
		pkg = f.Pkg.Pkg
	} else if f.Object() != nil {
		pkg = f.Object().Pkg()
	}
	ps := shortPkg(pkg)
	if recv := f.Signature.Recv(); recv != nil {
		t := recv.Type()
		ptr := ""
		if p, ok := t.(*types.Pointer); ok {
			ptr = "*"
			t = p.Elem()
		}
		name := "?"
		if n, ok := t.(*types.Named); ok {
			name = n.Obj().Name()
			if n.Obj().Pkg() != nil {
				ps = shortPkg(n.Obj().Pkg())
			}
		}
		return fmt.Sprintf("%s.(%s%s).%s", ps, ptr, name, f.Name())
	}
	return ps + "." + f.Name()
}

func loadProgram(dir string) (*Program, error) {
	cfg := &packages.Config{
		Mode:       packages.LoadAllSyntax,
		Dir:        dir,
		BuildFlags: []string{"-tags=verif"},
		Env:        append(os.Environ(), "GOFLAGS=-mod=mod", "GOPROXY=off", "GOSUMDB=off", "GOTOOLCHAIN=local"),
	}
	pkgs, err := packages.Load(cfg, "./...")
	if err != nil {
		return nil, err
	}
	nerr := 0
	packages.Visit(pkgs, nil, func(p *packages.Package) {
		for _, e := range p.Errors {
			if strings.HasPrefix(p.PkgPath, "github.com/FollowTheProcess/spok") {
				fmt.Fprintf(os.Stderr, "load error: %v\n", e)
				nerr++
			}
		}
	})
	if nerr > 0 {
		return nil, fmt.Errorf("%d load errors in /repo packages", nerr)
	}
	prog, spkgs := ssautil.AllPackages(pkgs, ssa.InstantiateGenerics|ssa.GlobalDebug)
	prog.Build()
	P := &Program{prog: prog, pkgs: pkgs, spkgs: spkgs, funcs: map[string]*ssa.Function{}, byPkg: map[string]*types.Package{}}
	for fn := range ssautil.AllFunctions(prog) {
		if fn.Synthetic != "" && !strings.HasPrefix(fn.Synthetic, "instance of") {
			// package initialisers of /repo packages can be put under contract (key "<pkg>.init")
			if !(fn.Synthetic == "package initializer" && fn.Pkg != nil && strings.HasPrefix(fn.Pkg.Pkg.Path(), "github.com/FollowTheProcess/spok")) {
				continue
			}
		}
		k := funcKey(fn)
		if old, ok := P.funcs[k]; ok {
			// prefer the non-instantiated / earlier one deterministically
			if old.Synthetic == "" {
				continue
			}
		}
		P.funcs[k] = fn
	}
	for _, p := range prog.AllPackages() {
		P.byPkg[shortPkg(p.Pkg)] = p.Pkg
		P.byPkg[p.Pkg.Name()] = p.Pkg // last wins; repo packages are re-set below
	}
	for _, p := range prog.AllPackages() {
		if strings.HasPrefix(p.Pkg.Path(), "github.com/FollowTheProcess/spok") {
			P.byPkg[p.Pkg.Name()] = p.Pkg
			P.byPkg[shortPkg(p.Pkg)] = p.Pkg
		}
	}
	for k, f := range P.funcs {
		if f.Pkg != nil && strings.HasPrefix(f.Pkg.Pkg.Path(), "github.com/FollowTheProcess/spok") && f.Blocks != nil {
			P.repoFn = append(P.repoFn, k)
		} else if f.Parent() != nil && strings.HasPrefix(k, "file.") {
			P.repoFn = append(P.repoFn, k)
		}
	}
	sort.Strings(P.repoFn)
	return P, nil
}

// lookupNamed finds a named type by "pkg.Name" (short package or package name).
func (P *Program) lookupNamed(pkg, name string) *types.Named {
	p := P.byPkg[pkg]
	if p == nil {
		return nil
	}
	o := p.Scope().Lookup(name)
	if o == nil {
		return nil
	}
	if tn, ok := o.(*types.TypeName); ok {
		if n, ok := tn.Type().(*types.Named); ok {
			return n
		}
	}
	return nil
}

func (P *Program) lookupObj(pkg, name string) types.Object {
	p := P.byPkg[pkg]
	if p == nil {
		return nil
	}
	return p.Scope().Lookup(name)
}
