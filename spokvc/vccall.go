package main

import (
	"fmt"
	"os"
	"go/token"
	"go/types"
	"sort"
	"strings"

	"golang.org/x/tools/go/ssa"
)

const maxInlineInstrs = 60
const maxInlineDepth = 4

func (a *Act) call(ctx *blockCtx, c *ssa.CallCommon, instr ssa.Instruction, b *ssa.BasicBlock, idx int) (Val, []Val) {
	var args []Val
	for _, arg := range c.Args {
		args = append(args, a.val(arg))
	}
	var fnv Val
	if c.IsInvoke() || c.StaticCallee() == nil {
		if _, isB := c.Value.(*ssa.Builtin); !isB {
			fnv = a.val(c.Value)
		}
	}
	var resT types.Type
	if v, ok := instr.(ssa.Value); ok {
		resT = v.Type()
	}
	return a.callWithArgs(ctx, c, args, fnv, resT, b, idx, instr.Pos())
}

func (a *Act) resultVals(resT types.Type, tag string) (Val, []Val) {
	g := a.g
	if resT == nil {
		return Val{T: "0", S: "Int"}, nil
	}
	if tup, ok := resT.(*types.Tuple); ok {
		if tup.Len() == 0 {
			return Val{T: "0", S: "Int"}, nil
		}
		var vs []Val
		for i := 0; i < tup.Len(); i++ {
			vs = append(vs, a.freshVal(tup.At(i).Type(), fmt.Sprintf("%s_r%d", tag, i)))
		}
		return Val{}, vs
	}
	_ = g
	return a.freshVal(resT, tag+"_r"), nil
}

func (a *Act) freshVal(t types.Type, tag string) Val {
	g := a.g
	s := g.w.sortOf(t)
	v := Val{T: g.fresh(tag, s), S: s, G: t}
	if f := g.typeFact(v); f != "true" {
		g.fact(f)
	}
	if strings.HasPrefix(s, "S_") {
		g.assumeType(v)
	}
	return v
}

// typeFact: facts that hold of every value of a Go type.
func (g *Gen) typeFact(v Val) string {
	switch {
	case strings.HasPrefix(v.S, "(Slc "):
		return "(>= (slc_len " + v.T + ") 0)"
	case v.S == "Int" && v.G != nil:
		if bt, ok := v.G.Underlying().(*types.Basic); ok {
			switch bt.Kind() {
			case types.Uint8:
				return and("(<= 0 "+v.T+")", "(<= "+v.T+" 255)")
			case types.Int32:
				return and("(<= (- 2147483648) "+v.T+")", "(<= "+v.T+" 2147483647)")
			case types.Uint, types.Uint16, types.Uint32, types.Uint64, types.Uintptr:
				return "(<= 0 " + v.T + ")"
			}
		}
	}
	return "true"
}

// havocCaptured: a closure passed to a callee may be invoked by it any number of times, so the
// variables it captured by reference may have any value afterwards (the caller's contract or a
// stated iterator lemma says which).
func (a *Act) havocCaptured(ctx *blockCtx, args []Val) {
	g := a.g
	for _, av := range args {
		ci, ok := a.closures[av.T]
		if !ok {
			continue
		}
		// when the closure is under contract only the cells named by its modifies clause can change
		var allowed map[string]bool
		if cs, ok := g.w.funcSpecs[funcKey(ci.fn)]; ok && cs.HasMod {
			allowed = map[string]bool{}
			for _, m := range cs.Modifies {
				m = strings.TrimSpace(m)
				if strings.HasPrefix(m, "cell(") && strings.HasSuffix(m, ")") {
					allowed[strings.TrimSpace(m[5:len(m)-1])] = true
				}
			}
		}
		for bi, bnd := range ci.bindings {
			if allowed != nil && bi < len(ci.fn.FreeVars) && !allowed[ci.fn.FreeVars[bi].Name()] {
				continue
			}
			if bnd.S != "Ref" || bnd.G == nil {
				continue
			}
			pt, ok := bnd.G.Underlying().(*types.Pointer)
			if !ok {
				continue
			}
			if nt, ok := types.Unalias(pt.Elem()).(*types.Named); ok {
				if st, ok := nt.Underlying().(*types.Struct); ok {
					for i := 0; i < st.NumFields(); i++ {
						hv, s := g.w.fieldHeap(namedKey(nt), st, i)
						ctx.st[hv] = "(store " + g.stateGet(ctx.st, hv) + " " + bnd.T + " " + g.fresh("captured", s) + ")"
					}
					continue
				}
			}
			s := g.w.sortOf(pt.Elem())
			hv := g.w.cellHeap(s)
			nv := Val{T: g.fresh("captured", s), S: s, G: pt.Elem()}
			if f := g.typeFact(nv); f != "true" {
				g.fact(f)
			}
			ctx.st[hv] = "(store " + g.stateGet(ctx.st, hv) + " " + bnd.T + " " + nv.T + ")"
			a.nameState(ctx, hv)
		}
	}
}

func (a *Act) callWithArgs(ctx *blockCtx, c *ssa.CallCommon, args []Val, fnv Val, resT types.Type, b *ssa.BasicBlock, idx int, pos token.Pos) (Val, []Val) {
	g := a.g
	if len(a.closures) > 0 {
		if _, isB := c.Value.(*ssa.Builtin); !isB {
			a.havocCaptured(ctx, args)
		}
	}
	if resT == nil {
		resT = c.Signature().Results()
		if tup := c.Signature().Results(); tup.Len() == 1 {
			resT = tup.At(0).Type()
		}
	}
	// builtins
	if bi, ok := c.Value.(*ssa.Builtin); ok {
		n := 0
		if idx < len(b.Instrs) {
			n = a.ordinalOf(b.Instrs[idx], bi.Name())
		}
		a.anchors(ctx, bi.Name(), n, false, b, idx)
		a.pending = append(a.pending, pendingAnchor{callee: bi.Name(), n: n})
		return a.builtin(ctx, bi, c, args, resT, pos), nil
	}
	if c.IsInvoke() {
		return a.invoke(ctx, c, args, fnv, resT, b, idx, pos)
	}
	callee := c.StaticCallee()
	if callee == nil {
		// closure created in this activation?
		if ci, ok := a.closures[fnv.T]; ok {
			_ = ci
		}
		return a.dynCall(ctx, c, args, fnv, resT, b, idx, pos)
	}
	key := funcKey(callee)
	n := a.ordinalOf(b.Instrs[idx], shortName(key))
	a.anchors(ctx, shortName(key), n, false, b, idx)
	a.pending = append(a.pending, pendingAnchor{callee: shortName(key), n: n})
	if key != shortName(key) {
		// qualified anchor "at call file.New#0": ordinal among the calls to exactly this function
		// (a bare name counts every callee of that name: errors.New, parser.New, file.New ...)
		nq := a.ordinalOfQ(b.Instrs[idx])
		a.anchors(ctx, key, nq, false, b, idx)
		a.pending = append(a.pending, pendingAnchor{callee: key, n: nq})
	}

	if v, tup, ok := a.modelCall2(ctx, key, callee, c, args, resT, pos); ok {
		return v, tup
	}
	if spec, ok := g.w.funcSpecs[key]; ok {
		pnames := paramNames(callee)
		return a.contractCall(ctx, spec, key, pnames, args, nil, callee.Signature, resT, pos)
	}
	if a.inlinable(callee) {
		return a.inline(ctx, callee, args, resT, pos)
	}
	defer func() { a.bumpWMDefault(ctx) }()
	if callee.Blocks != nil && callee.Pkg != nil && strings.HasPrefix(callee.Pkg.Pkg.Path(), "github.com/FollowTheProcess/spok") {
		// a function of /repo without a contract that cannot be inlined: everything its body
		// (transitively) may write is unknown afterwards
		set := map[string]bool{}
		sub := g.newAct(callee, a.depth+1)
		g.modsSkipAlloc = true
		defer func() { g.modsSkipAlloc = false }()
		for _, bb := range callee.Blocks {
			for _, ins := range bb.Instrs {
				if st, ok := ins.(*ssa.Store); ok && rootIsLocalAlloc(st.Addr) {
					continue // a write into the callee's own local variable is invisible to the caller
				}
				g.instrMods(sub, ins, set, a.depth+1)
			}
		}
		for _, hv := range sortedKeys(set) {
			if s, ok := g.w.heapVars[hv]; ok {
				ctx.st[hv] = g.fresh(hv+"_unk", s)
			}
		}
		g.usedDefault[key+" (uncontracted function of /repo: its possible writes are havocked)"] = true
		v, tup := a.resultVals(resT, "dflt_"+shortName(key))
		return v, tup
	}
	// slices are values in this model: a callee outside /repo without a contract that is handed a
	// slice could write through it unseen. Only callees known to read their slice arguments are accepted.
	if !(callee.Pkg != nil && strings.HasPrefix(callee.Pkg.Pkg.Path(), "github.com/FollowTheProcess/spok")) {
		for _, av := range c.Args {
			t := av.Type()
			if mi, ok := av.(*ssa.MakeInterface); ok {
				t = mi.X.Type()
			}
			if _, isSlice := t.Underlying().(*types.Slice); !isSlice {
				continue
			}
			if _, isTmp := av.(*ssa.Slice); isTmp {
				continue // a varargs temporary built at the call site
			}
			if _, isConst := av.(*ssa.Const); isConst {
				continue // a nil slice
			}
			if !readsSlicesOnly(key) {
				g.problem("%s: the slice %s is handed to %s, a function outside /repo without a contract that might write through it (slices are values in this model) at %s", a.key, av.Name(), key, g.pos(pos))
			}
		}
	}
	g.usedDefault[key] = true
	if debugKeys {
		fmt.Fprintf(os.Stderr, "default-frame: %q\n", key)
	}
	v, tup := a.resultVals(resT, "dflt_"+shortName(key))
	return v, tup
}

func paramNames(fn *ssa.Function) []string {
	var ns []string
	for _, p := range fn.Params {
		ns = append(ns, p.Name())
	}
	return ns
}

func (a *Act) inlinable(fn *ssa.Function) bool {
	if fn.Blocks == nil || a.depth >= maxInlineDepth {
		return false
	}
	if fn.Pkg == nil || !strings.HasPrefix(fn.Pkg.Pkg.Path(), "github.com/FollowTheProcess/spok") {
		return false
	}
	n := 0
	for _, b := range fn.Blocks {
		n += len(b.Instrs)
		for _, p := range b.Preds {
			if b.Dominates(p) {
				return false // has a loop
			}
		}
	}
	if n > maxInlineInstrs {
		return false
	}
	k := funcKey(fn)
	for _, s := range a.g.inlineStack {
		if s == k {
			return false
		}
	}
	return true
}

func (a *Act) inline(ctx *blockCtx, fn *ssa.Function, args []Val, resT types.Type, pos token.Pos) (Val, []Val) {
	g := a.g
	key := funcKey(fn)
	g.usedInlined[key] = true
	g.inlineStack = append(g.inlineStack, key)
	defer func() { g.inlineStack = g.inlineStack[:len(g.inlineStack)-1] }()
	sub := g.newAct(fn, a.depth+1)
	sub.run(ctx.reach, ctx.st, args)
	return a.mergeExits(ctx, sub.exits, resT, shortName(key))
}

func (a *Act) mergeExits(ctx *blockCtx, exits []exitPt, resT types.Type, tag string) (Val, []Val) {
	g := a.g
	if len(exits) == 0 {
		ctx.reach = "false"
		return a.resultVals(resT, "noexit_"+tag)
	}
	if len(exits) == 1 {
		ctx.reach = exits[0].reach
		ctx.st = exits[0].st.clone()
		return packResults(exits[0].results)
	}
	var es []edge
	var conds []string
	for _, e := range exits {
		es = append(es, edge{cond: e.reach, st: e.st})
		conds = append(conds, e.reach)
	}
	r := g.fresh("r_ret_"+tag, "Bool")
	g.fact("(= " + r + " " + or(conds...) + ")")
	ctx.reach = r
	ctx.st = g.mergeStates(es, "ret_"+tag)
	nres := len(exits[0].results)
	var out []Val
	for i := 0; i < nres; i++ {
		last := exits[len(exits)-1].results[i]
		s := last.S
		for _, e := range exits {
			if e.results[i].S != s && e.results[i].T != "iface_nil" && e.results[i].T != "ref_nil" {
				s = e.results[i].S
			}
		}
		t := a.coerce(last, s).T
		for j := len(exits) - 2; j >= 0; j-- {
			t = "(ite " + exits[j].reach + " " + a.coerce(exits[j].results[i], s).T + " " + t + ")"
		}
		n := g.fresh("ret_"+tag, s)
		g.fact("(= " + n + " " + t + ")")
		out = append(out, Val{T: n, S: s, G: last.G})
	}
	return packResults(out)
}

func packResults(rs []Val) (Val, []Val) {
	switch len(rs) {
	case 0:
		return Val{T: "0", S: "Int"}, nil
	case 1:
		return rs[0], nil
	}
	return Val{}, rs
}

// contractCall: assert requires, havoc modifies, assume ensures.
func (a *Act) contractCall(ctx *blockCtx, spec *FuncSpec, key string, pnames []string, args []Val, extra map[string]Val, sig *types.Signature, resT types.Type, pos token.Pos) (Val, []Val) {
	g := a.g
	if spec.Assumed {
		g.usedAssumed[key] = true
	} else if spec.Trusted != "" {
		g.usedAssumed[key+" (trusted: "+spec.Trusted+")"] = true
	}
	vars := map[string]Val{}
	for i, n := range pnames {
		if i < len(args) {
			vars[n] = args[i]
		}
	}
	for k, v := range extra {
		vars[k] = v
	}
	pre := ctx.st.clone()
	envPre := &Env{g: g, vars: vars, st: pre, old: pre, pkg: spec.Pkg, aliasKey: spec.Key}
	// implicit: pointer-to-struct arguments non-nil for contracted repo functions
	if !spec.Assumed && sig != nil {
		for i, n := range pnames {
			if i < len(args) && args[i].S == "Ref" && args[i].G != nil {
				if pt, ok := args[i].G.Underlying().(*types.Pointer); ok {
					if _, ok := pt.Elem().Underlying().(*types.Struct); ok {
						known := false
						for _, r := range g.refs {
							if r == args[i].T {
								known = true
							}
						}
						if !known {
							g.oblige("pre", fmt.Sprintf("%s/call:%s/nonnil:%s", a.key, shortName(key), n), ctx.reach, not("(= "+args[i].T+" ref_nil)"), "pointer argument non-nil", g.pos(pos), a.safetyProps())
						}
					}
				}
			}
		}
	}
	for k, c := range spec.Requires {
		t := a.trClauseEnv(envPre, c, "requires of "+key)
		g.oblige("pre", fmt.Sprintf("%s/call:%s/pre%d%s", a.key, shortName(key), k, labelSuffix(c)), ctx.reach, t, c.Src, g.pos(pos), a.callProps(c, spec))
		g.fact(implies(ctx.reach, t))
	}
	// results
	res, tup := a.resultVals(resT, "res_"+shortName(key))
	rvars := map[string]Val{}
	if tup != nil {
		for i, v := range tup {
			rvars[fmt.Sprintf("result%d", i)] = v
		}
		rvars["result"] = tup[0]
		if tup[len(tup)-1].S == "Iface" {
			rvars["err"] = tup[len(tup)-1]
		}
		if len(tup) == 2 && tup[1].S == "Bool" {
			rvars["ok"] = tup[1]
		}
	} else if resT != nil {
		if t, ok := resT.(*types.Tuple); !ok || t.Len() > 0 {
			rvars["result"] = res
			if res.S == "Iface" {
				rvars["err"] = res
			}
		}
	}
	if sig != nil {
		rt := sig.Results()
		for i := 0; i < rt.Len(); i++ {
			if n := rt.At(i).Name(); n != "" && n != "_" {
				if tup != nil {
					rvars[n] = tup[i]
				} else {
					rvars[n] = res
				}
			}
		}
	}
	// crash inside the callee: durable state as described by its crashensures
	if a.spec != nil && a.depth == 0 && (len(a.spec.CrashInv) > 0 || len(a.spec.CrashEns) > 0) && len(spec.Modifies) > 0 {
		a.crashInside(ctx, spec, key, vars, pos)
	}
	// havoc modifies
	post := ctx.st
	allVars := map[string]Val{}
	for k, v := range vars {
		allVars[k] = v
	}
	for k, v := range rvars {
		allVars[k] = v
	}
	envModPre := &Env{g: g, vars: allVars, st: pre, old: pre, pkg: spec.Pkg, aliasKey: spec.Key}
	for _, m := range spec.Modifies {
		hv, obj, err := envModPre.resolveMod(m)
		if err != nil {
			g.oblige("binding", fmt.Sprintf("%s/call:%s/modifies", a.key, shortName(key)), "true", "false", "modifies clause does not bind: "+err.Error(), spec.File, nil)
			continue
		}
		s := g.w.heapVars[hv]
		if obj == "" {
			post[hv] = g.fresh(hv+"_c", s)
		} else {
			_, es := splitArraySort(s)
			nv := g.fresh(hv+"_at", es)
			post[hv] = "(store " + g.stateGet(post, hv) + " " + obj + " " + nv + ")"
			a.nameState(ctx, hv)
		}
	}
	a.bumpWM(ctx, res, tup)
	envPost := &Env{g: g, vars: allVars, st: post, old: pre, pkg: spec.Pkg, aliasKey: spec.Key}
	for _, u := range spec.Uses {
		_ = u
	}
	for _, c := range spec.Ensures {
		t := a.trClauseEnv(envPost, c, "ensures of "+key)
		g.fact(implies(ctx.reach, t))
	}
	if a.spec != nil && a.depth == 0 && len(spec.Modifies) > 0 {
		a.crashPoint(ctx, "after:"+shortName(key), pos)
	}
	return res, tup
}

// crashPoint: the crash invariant of the function under verification holds in the current state.
func (a *Act) crashPoint(ctx *blockCtx, where string, pos token.Pos) {
	if a.spec == nil || (len(a.spec.CrashInv) == 0 && len(a.spec.CrashEns) == 0) {
		return
	}
	env := a.env(ctx.st, nil, nil)
	for k, c := range a.spec.CrashInv {
		t := a.trClause(env, c, "crashinv")
		a.g.oblige("crash", fmt.Sprintf("%s/crashinv%d/%s", a.key, k, where), ctx.reach, t, c.Src, a.g.pos(pos), a.clauseProps(c))
	}
	// the function's own crashensures must hold if the process dies here
	for k, c := range a.spec.CrashEns {
		t := a.trClause(env, c, "crashensures")
		a.g.oblige("crash", fmt.Sprintf("%s/crashensures%d/%s", a.key, k, where), ctx.reach, t, c.Src, a.g.pos(pos), a.clauseProps(c))
	}
}

// crashInside: the process dies while the callee is running: its modifies set is arbitrary
// except for what its crashensures clauses promise; the crash invariant must still hold.
func (a *Act) crashInside(ctx *blockCtx, spec *FuncSpec, key string, vars map[string]Val, pos token.Pos) {
	g := a.g
	pre := ctx.st.clone()
	mid := ctx.st.clone()
	envPre := &Env{g: g, vars: vars, st: pre, old: pre, pkg: spec.Pkg, aliasKey: spec.Key}
	for _, m := range spec.Modifies {
		hv, obj, err := envPre.resolveMod(m)
		if err != nil {
			continue
		}
		s := g.w.heapVars[hv]
		if obj == "" {
			mid[hv] = g.fresh(hv+"_crash", s)
		} else {
			_, es := splitArraySort(s)
			mid[hv] = "(store " + g.stateGet(mid, hv) + " " + obj + " " + g.fresh(hv+"_crashat", es) + ")"
		}
	}
	envMid := &Env{g: g, vars: vars, st: mid, old: pre, pkg: spec.Pkg, aliasKey: spec.Key}
	var assumed []string
	for _, c := range spec.CrashEns {
		assumed = append(assumed, a.trClauseEnv(envMid, c, "crashensures of "+key))
	}
	env := a.env(mid, nil, nil)
	for k, c := range a.spec.CrashInv {
		t := a.trClause(env, c, "crashinv")
		g.oblige("crash", fmt.Sprintf("%s/crashinv%d/inside:%s", a.key, k, shortName(key)), and(ctx.reach, and(assumed...)), t, c.Src+"   [process dies inside "+key+"]", g.pos(pos), a.clauseProps(c))
	}
	for k, c := range a.spec.CrashEns {
		t := a.trClause(env, c, "crashensures")
		g.oblige("crash", fmt.Sprintf("%s/crashensures%d/inside:%s", a.key, k, shortName(key)), and(ctx.reach, and(assumed...)), t, c.Src+"   [process dies inside "+key+"]", g.pos(pos), a.clauseProps(c))
	}
}

func (a *Act) callProps(c Clause, spec *FuncSpec) []string {
	if len(c.Props) > 0 {
		return c.Props
	}
	return a.safetyProps()
}

func (a *Act) trClauseEnv(env *Env, c Clause, what string) (out string) {
	defer func() {
		if r := recover(); r != nil {
			if se, ok := r.(specErr); ok {
				a.g.oblige("binding", fmt.Sprintf("%s/binding/%s:%d", a.key, sanitize(what), c.Line), "true", "false", fmt.Sprintf("%s does not bind: %s  [%s]", what, string(se), c.Src), fmt.Sprintf("%s:%d", c.File, c.Line), nil)
				out = "true"
				return
			}
			panic(r)
		}
	}()
	v := env.tr(c.E)
	if v.S != "Bool" {
		panic(specErr("clause is not boolean"))
	}
	return v.T
}

// resolveMod: "x.f" (precise), "T.f" (whole field), ghost var, "mapOf(e)".
func (e *Env) resolveMod(m string) (hv string, obj string, err error) {
	defer func() {
		if r := recover(); r != nil {
			if se, ok := r.(specErr); ok {
				err = fmt.Errorf("%s", string(se))
				return
			}
			panic(r)
		}
	}()
	x, perr := ParseSpecExpr(m)
	if perr != nil {
		return "", "", perr
	}
	g := e.g
	switch x := x.(type) {
	case EIdent:
		if gs, ok := g.w.ghostVars[x.Name]; ok {
			s, _ := g.w.specSort(gs, e.pkg)
			hv := "G_" + x.Name
			g.w.heapVars[hv] = s
			return hv, "", nil
		}
		return "", "", fmt.Errorf("unknown ghost variable %s", x.Name)
	case ECall:
		if x.Fn == "mapOf" && len(x.Args) == 1 {
			v := e.tr(x.Args[0])
			if v.G == nil || !isMap(v.G) {
				return "", "", fmt.Errorf("mapOf needs a Go map")
			}
			hv, _, _ := g.w.mapHeap(v.G.Underlying().(*types.Map))
			return hv, v.T, nil
		}
		if x.Fn == "cell" && len(x.Args) == 1 {
			// cell(v): the memory cell of a captured / address-taken variable v
			if id, ok := x.Args[0].(EIdent); ok {
				if v, ok := e.vars[id.Name]; ok && v.S == "$addr" && v.G != nil {
					if pt, ok := v.G.Underlying().(*types.Pointer); ok {
						return g.w.cellHeap(g.w.sortOf(pt.Elem())), v.T, nil
					}
				}
			}
			return "", "", fmt.Errorf("cell(v) needs a captured variable")
		}
		if x.Fn == "global" && len(x.Args) == 1 {
			// global(pkg.Var)
			if s, ok := x.Args[0].(ESel); ok {
				if id, ok := s.X.(EIdent); ok {
					if o := g.w.prog.lookupObj(id.Name, s.Name); o != nil {
						hv := "GV_" + sanitize(shortPkg(o.Pkg())+"_"+o.Name())
						g.w.heapVars[hv] = g.w.sortOf(o.Type())
						return hv, "", nil
					}
				}
			}
		}
		return "", "", fmt.Errorf("bad modifies entry %s", m)
	case ESel:
		// Type.field ?
		if id, ok := x.X.(EIdent); ok {
			if _, isVar := e.vars[id.Name]; !isVar {
				var nt *types.Named
				func() {
					defer func() { recover() }()
					_, gt := g.w.specSort(id.Name, e.pkg)
					if n, ok := gt.(*types.Named); ok {
						nt = n
					}
				}()
				if nt != nil {
					hv, err := g.fieldHeapByName(nt, x.Name)
					return hv, "", err
				}
			}
		}
		if s2, ok := x.X.(ESel); ok {
			// pkg.Type.field
			if id, ok := s2.X.(EIdent); ok {
				if nt := g.w.prog.lookupNamed(id.Name, s2.Name); nt != nil {
					hv, err := g.fieldHeapByName(nt, x.Name)
					return hv, "", err
				}
			}
		}
		b := e.tr(x.X)
		if b.G == nil {
			return "", "", fmt.Errorf("modifies %s: untyped base", m)
		}
		pt, ok := b.G.Underlying().(*types.Pointer)
		if !ok {
			return "", "", fmt.Errorf("modifies %s: base is not a pointer", m)
		}
		nt, ok := types.Unalias(pt.Elem()).(*types.Named)
		if !ok {
			return "", "", fmt.Errorf("modifies %s: base is not a named struct pointer", m)
		}
		hv, err := g.fieldHeapByName(nt, x.Name)
		return hv, b.T, err
	}
	return "", "", fmt.Errorf("bad modifies entry %s", m)
}

func (g *Gen) fieldHeapByName(nt *types.Named, name string) (string, error) {
	st, ok := nt.Underlying().(*types.Struct)
	if !ok {
		return "", fmt.Errorf("%s is not a struct", nt)
	}
	key := namedKey(nt)
	for i := 0; i < st.NumFields(); i++ {
		if st.Field(i).Name() == name {
			hv, _ := g.w.fieldHeap(key, st, i)
			return hv, nil
		}
	}
	if gf, ok := g.w.ghostFields[key+"."+name]; ok {
		s, _ := g.w.specSort(gf.Type, "")
		hv := "H_" + sanitize(key) + "_" + sanitize(name)
		g.w.heapVars[hv] = "(Array Ref " + s + ")"
		return hv, nil
	}
	return "", fmt.Errorf("type %s has no field %s", key, name)
}

// invoke: interface method call.
func (a *Act) invoke(ctx *blockCtx, c *ssa.CallCommon, args []Val, recv Val, resT types.Type, b *ssa.BasicBlock, idx int, pos token.Pos) (Val, []Val) {
	g := a.g
	key := ifaceMethodKey(c.Value.Type(), c.Method)
	n := a.ordinalOf(b.Instrs[idx], shortName(key))
	a.anchors(ctx, shortName(key), n, false, b, idx)
	a.pending = append(a.pending, pendingAnchor{callee: shortName(key), n: n})
	if spec, ok := g.w.ifaceSpecs[key]; ok {
		g.oblige("nil", fmt.Sprintf("%s/nil/invoke:%s", a.key, shortName(key)), ctx.reach, not("(= "+recv.T+" iface_nil)"), "method call on nil interface value", g.pos(pos), a.safetyProps())
		g.fact(implies(ctx.reach, not("(= "+recv.T+" iface_nil)")))
		sig := c.Method.Type().(*types.Signature)
		var pn []string
		for i := 0; i < sig.Params().Len(); i++ {
			pn = append(pn, sig.Params().At(i).Name())
		}
		if len(spec.Params) == len(pn) {
			pn = spec.Params
		}
		return a.contractCall(ctx, spec, key, pn, args, map[string]Val{"self": recv}, sig, resT, pos)
	}
	g.usedDefault[key] = true
	return a.resultVals(resT, "dflt_"+c.Method.Name())
}

func ifaceMethodKey(t types.Type, m *types.Func) string {
	if nt, ok := types.Unalias(t).(*types.Named); ok {
		return namedKey(nt) + "." + m.Name()
	}
	return "iface." + m.Name()
}

// dynCall: call through a function value; uses a functype contract when one matches.
func (a *Act) dynCall(ctx *blockCtx, c *ssa.CallCommon, args []Val, fnv Val, resT types.Type, b *ssa.BasicBlock, idx int, pos token.Pos) (Val, []Val) {
	g := a.g
	sig := c.Signature()
	for k, spec := range g.w.funcSpecs {
		if !strings.HasPrefix(k, "functype:") {
			continue
		}
		tn := strings.TrimPrefix(k, "functype:")
		i := strings.LastIndex(tn, ".")
		nt := g.w.prog.lookupNamed(tn[:i], tn[i+1:])
		if nt == nil {
			continue
		}
		if fs, ok := nt.Underlying().(*types.Signature); ok && types.Identical(fs, sig) {
			var pn []string
			for i := 0; i < fs.Params().Len(); i++ {
				pn = append(pn, fs.Params().At(i).Name())
			}
			if len(spec.Params) == len(pn) {
				pn = spec.Params
			}
			g.oblige("nil", fmt.Sprintf("%s/nil/dyncall", a.key), ctx.reach, not("(= "+fnv.T+" 0)"), "call of nil function value", g.pos(pos), a.safetyProps())
			return a.contractCall(ctx, spec, k, pn, args, map[string]Val{"self": fnv}, fs, resT, pos)
		}
	}
	g.usedDefault["dynamic call at "+g.pos(pos)] = true
	return a.resultVals(resT, "dyn")
}

func (a *Act) builtin(ctx *blockCtx, bi *ssa.Builtin, c *ssa.CallCommon, args []Val, resT types.Type, pos token.Pos) Val {
	g := a.g
	switch bi.Name() {
	case "len":
		v := args[0]
		switch {
		case v.S == "Str":
			return intT("(slen " + v.T + ")")
		case strings.HasPrefix(v.S, "(Slc "):
			return intT("(slc_len " + v.T + ")")
		case strings.HasPrefix(v.S, "(Array Int"):
			ar := c.Args[0].Type().Underlying().(*types.Array)
			return intT(fmt.Sprint(ar.Len()))
		case v.G != nil && isMap(v.G):
			m := v.G.Underlying().(*types.Map)
			hv, k, _ := g.w.mapHeap(m)
			r := intT("(" + g.cardFn(k) + " (map_dom (select " + g.stateGet(ctx.st, hv) + " " + v.T + ")))")
			g.fact("(>= " + r.T + " 0)")
			return r
		}
	case "cap":
		v := g.fresh("cap", "Int")
		if strings.HasPrefix(args[0].S, "(Slc ") {
			g.fact("(>= " + v + " (slc_len " + args[0].T + "))")
		}
		return intT(v)
	case "append":
		s := args[0]
		if len(args) == 1 {
			return s
		}
		e := args[1]
		if s.S != e.S {
			if e.S == "Str" { // append([]byte, string...)
				g.problem("%s: append of string to []byte at %s", a.key, g.pos(pos))
			}
			s = a.coerce(s, e.S)
		}
		if n, ok := g.knownLens[e.T]; ok {
			arr := "(slc_arr " + s.T + ")"
			for i := 0; i < n; i++ {
				at := fmt.Sprintf("(+ (slc_len %s) %d)", s.T, i)
				if i == 0 {
					at = "(slc_len " + s.T + ")" // same shape as the spec builtin snoc()
				}
				arr = fmt.Sprintf("(store %s %s (select (slc_arr %s) %d))", arr, at, e.T, i)
			}
			r := Val{T: fmt.Sprintf("((as mk_slc %s) %s (+ (slc_len %s) %d))", e.S, arr, s.T, n), S: e.S, G: resT}
			nm := g.fresh("app", r.S)
			g.fact("(= " + nm + " " + r.T + ")")
			r.T = nm
			return r
		}
		fn := g.slcCatFn(e.S)
		g.slcCatAxioms(e.S)
		r := Val{T: "(" + fn + " " + s.T + " " + e.T + ")", S: e.S, G: resT}
		nm := g.fresh("cat", r.S)
		g.fact("(= " + nm + " " + r.T + ")")
		r.T = nm
		return r
	case "min", "max":
		op := "<="
		if bi.Name() == "max" {
			op = ">="
		}
		return intT("(ite (" + op + " " + args[0].T + " " + args[1].T + ") " + args[0].T + " " + args[1].T + ")")
	case "delete":
		mv, kv := args[0], args[1]
		m := c.Args[0].Type().Underlying().(*types.Map)
		hv, _, _ := g.w.mapHeap(m)
		cur := "(select " + g.stateGet(ctx.st, hv) + " " + mv.T + ")"
		ctx.st[hv] = "(store " + g.stateGet(ctx.st, hv) + " " + mv.T + " (mk_map (store (map_dom " + cur + ") " + kv.T + " false) (map_val " + cur + ")))"
		return Val{T: "0", S: "Int"}
	case "close":
		if spec, ok := g.w.funcSpecs["builtin.close"]; ok {
			v, _ := a.contractCall(ctx, spec, "builtin.close", []string{"ch"}, args, nil, nil, nil, pos)
			return v
		}
		return Val{T: "0", S: "Int"}
	case "panic":
		g.oblige("panic", a.key+"/panic", ctx.reach, "false", "explicit panic reachable", g.pos(pos), a.safetyProps())
		return Val{T: "0", S: "Int"}
	case "print", "println":
		return Val{T: "0", S: "Int"}
	}
	g.problem("%s: unsupported builtin %s at %s", a.key, bi.Name(), g.pos(pos))
	if resT != nil {
		return a.freshVal(resT, "bi")
	}
	return Val{T: "0", S: "Int"}
}

func (g *Gen) slcCatAxioms(s Sort) {
	fn := g.slcCatFn(s)
	name := fn + "_ax"
	if g.declared[name] {
		return
	}
	g.declared[name] = true
	g.decls = append(g.decls,
		fmt.Sprintf("(assert (forall ((a %s) (b %s)) (! (= (slc_len (%s a b)) (+ (slc_len a) (slc_len b))) :pattern ((%s a b)))))", s, s, fn, fn),
		fmt.Sprintf("(assert (forall ((a %s) (b %s) (k Int)) (! (= (select (slc_arr (%s a b)) k) (ite (< k (slc_len a)) (select (slc_arr a) k) (select (slc_arr b) (- k (slc_len a))))) :pattern ((select (slc_arr (%s a b)) k)))))", s, s, fn, fn))
}

// anchors: user assertions / lemma uses / ghost updates attached to the n-th call of a callee.
func (a *Act) anchors(ctx *blockCtx, callee string, n int, after bool, b *ssa.BasicBlock, idx int) {
	if a.spec == nil {
		return
	}
	for _, an := range a.spec.Anchors {
		if an.Callee != callee || an.Nth != n || an.After != after {
			continue
		}
		an.bound = true
		env := a.envAt(ctx.st, b, idx)
		for _, c := range an.Block {
			// the operation blocks forever when the condition holds: execution continues only otherwise
			t := a.trClause(env, c, "blockif")
			nr := a.g.fresh("r_unblocked", "Bool")
			a.g.fact("(= " + nr + " " + and(ctx.reach, not(t)) + ")")
			ctx.reach = nr
			a.g.usedAssumed["channel semantics: a send blocks forever once the receiver has stopped receiving ("+c.Src+")"] = true
		}
		for k, c := range an.Assert {
			t := a.trClause(env, c, "assert")
			a.g.oblige("assert", fmt.Sprintf("%s/at:%s#%d/assert%d%s", a.key, callee, n, k, labelSuffix(c)), ctx.reach, t, c.Src, fmt.Sprintf("%s:%d", c.File, c.Line), a.clauseProps(c))
			a.g.fact(implies(ctx.reach, t))
		}
		for _, u := range an.Uses {
			a.applyUse(env, u, ctx.reach, fmt.Sprintf("%s/at:%s#%d", a.key, callee, n))
		}
		for _, gu := range an.Ghost {
			a.ghostAssign(ctx, env, gu)
		}
		if len(an.Ghost) > 0 && a.depth == 0 {
			a.crashPoint(ctx, fmt.Sprintf("ghost@%s#%d", callee, n), token.NoPos)
		}
	}
}

// applyUse instantiates a lemma: its requires become obligations, its ensures facts.
func (a *Act) applyUse(env *Env, u UseHint, reach string, where string) {
	g := a.g
	defer func() {
		if r := recover(); r != nil {
			if se, ok := r.(specErr); ok {
				g.oblige("binding", fmt.Sprintf("%s/binding/use:%s", where, u.Lemma), "true", "false", "use does not bind: "+string(se)+" ["+u.Src+"]", fmt.Sprintf("%s:%d", u.File, u.Line), nil)
				return
			}
			panic(r)
		}
	}()
	lm, ok := g.w.lemmas[u.Lemma]
	if !ok {
		panic(specErr("unknown lemma " + u.Lemma))
	}
	if len(lm.Params) != len(u.Args) {
		panic(specErr("lemma arity"))
	}
	vars := map[string]Val{}
	for i, p := range lm.Params {
		v := env.tr(u.Args[i])
		s, gt := g.w.specSort(p.Type, "")
		if v.S != s {
			panic(specErr(fmt.Sprintf("lemma %s arg %s: sort %s want %s", lm.Name, p.Name, v.S, s)))
		}
		if v.G == nil {
			v.G = gt
		}
		vars[p.Name] = v
	}
	le := &Env{g: g, vars: vars, st: env.st, old: env.old, pkg: ""}
	var reqs []string
	for _, r := range lm.Requires {
		reqs = append(reqs, le.tr(r).T)
	}
	var props []string
	if a.spec != nil {
		props = a.spec.Props
	}
	if len(reqs) > 0 {
		g.oblige("lemma-pre", fmt.Sprintf("%s/use:%s/requires", where, lm.Name), reach, and(reqs...), u.Src, fmt.Sprintf("%s:%d", u.File, u.Line), props)
	}
	for _, en := range lm.Ensures {
		g.fact(implies(and(reach, and(reqs...)), le.tr(en).T))
	}
	if lm.Assumed {
		g.usedAssumed["lemma "+lm.Name] = true
	}
	g.usedLemmas[lm.Name] = true
}

type GhostUpdate struct {
	Target string
	Value  Expr
	Src    string
	File   string
	Line   int
}

func (a *Act) ghostAssign(ctx *blockCtx, env *Env, gu GhostUpdate) {
	g := a.g
	defer func() {
		if r := recover(); r != nil {
			if se, ok := r.(specErr); ok {
				g.oblige("binding", fmt.Sprintf("%s/binding/ghost:%s", a.key, gu.Target), "true", "false", "ghost update does not bind: "+string(se), fmt.Sprintf("%s:%d", gu.File, gu.Line), nil)
				return
			}
			panic(r)
		}
	}()
	v := env.tr(gu.Value)
	hv, obj, err := env.resolveMod(gu.Target)
	if err != nil {
		panic(specErr(err.Error()))
	}
	if obj == "" {
		if hs, ok := g.w.heapVars[hv]; ok && v.S != "" && v.S != "$nil" && string(hs) != string(v.S) {
			panic(specErr(fmt.Sprintf("ghost update of %s (%s) with a value of sort %s", gu.Target, hs, v.S)))
		}
		ctx.st[hv] = v.T
	} else {
		ctx.st[hv] = "(store " + g.stateGet(ctx.st, hv) + " " + obj + " " + v.T + ")"
	}
	a.nameState(ctx, hv)
}

// send on a channel: anchored ghost code "at send#N".
func (a *Act) send(ctx *blockCtx, x *ssa.Send, b *ssa.BasicBlock, idx int) {
	n := a.ordinalOf(x, "send")
	if a.spec == nil {
		a.g.problem("%s: channel send in uncontracted (inlined) function", a.key)
		return
	}
	// expose the sent value as `sent`
	if a.recvVars == nil {
		a.recvVars = map[string]Val{}
	}
	a.recvVars["sent"] = a.val(x.X)
	found := false
	for _, an := range a.spec.Anchors {
		if an.Callee == "send" && an.Nth == n {
			found = true
		}
	}
	if !found {
		a.g.oblige("binding", fmt.Sprintf("%s/send#%d/no-contract", a.key, n), "true", "false", "channel send without an 'at call send#N' contract", a.g.pos(x.Pos()), nil)
	}
	a.anchors(ctx, "send", n, false, b, idx)
	delete(a.recvVars, "sent")
}

// instrMods: heap variables an instruction may modify (syntactic over-approximation).
func (g *Gen) instrMods(a *Act, ins ssa.Instruction, set map[string]bool, depth int) {
	switch x := ins.(type) {
	case *ssa.Store:
		g.addrMods(x.Addr, set)
	case *ssa.MapUpdate:
		hv, _, _ := g.w.mapHeap(x.Map.Type().Underlying().(*types.Map))
		set[hv] = true
	case *ssa.Alloc:
		if g.modsSkipAlloc {
			return // only the caller-visible effect is wanted: fresh objects are not visible
		}
		elem := x.Type().(*types.Pointer).Elem()
		if nt, ok := types.Unalias(elem).(*types.Named); ok {
			if st, ok := nt.Underlying().(*types.Struct); ok {
				for i := 0; i < st.NumFields(); i++ {
					hv, _ := g.w.fieldHeap(namedKey(nt), st, i)
					set[hv] = true
				}
				return
			}
		}
		set[g.w.cellHeap(g.w.sortOf(elem))] = true
	case *ssa.MakeMap:
		if g.modsSkipAlloc {
			return
		}
		hv, _, _ := g.w.mapHeap(x.Type().Underlying().(*types.Map))
		set[hv] = true
	case *ssa.Range:
		if _, ok := x.X.Type().Underlying().(*types.Map); ok {
			set["ITER_"+sanitize(a.key)+"_"+x.Name()] = true
		}
	case *ssa.Next:
		if r, ok := x.Iter.(*ssa.Range); ok {
			if mt, ok := r.X.Type().Underlying().(*types.Map); ok {
				hv := "ITER_" + sanitize(a.key) + "_" + r.Name()
				g.w.heapVars[hv] = "(Array " + g.w.sortOf(mt.Key()) + " Bool)"
				set[hv] = true
			}
		}
	case *ssa.Send:
		if a.spec != nil {
			for _, an := range a.spec.Anchors {
				for _, gu := range an.Ghost {
					g.modTargets(a, gu.Target, set)
				}
			}
		}
	case *ssa.Call:
		g.callMods(a, &x.Call, set, depth)
	case *ssa.Defer:
		g.callMods(a, &x.Call, set, depth)
	}
}

func (g *Gen) modTargets(a *Act, target string, set map[string]bool) {
	env := &Env{g: g, vars: map[string]Val{}, st: State{}, pkg: a.pkg}
	for k, v := range a.params {
		env.vars[k] = v
	}
	hv, _, err := env.resolveMod(target)
	if err == nil {
		set[hv] = true
	}
}

func (g *Gen) addrMods(addr ssa.Value, set map[string]bool) {
	switch x := addr.(type) {
	case *ssa.FieldAddr:
		pt := x.X.Type().Underlying().(*types.Pointer)
		if inner, ok := x.X.(*ssa.FieldAddr); ok {
			g.addrMods(inner, set)
			return
		}
		if nt, ok := types.Unalias(pt.Elem()).(*types.Named); ok {
			st := nt.Underlying().(*types.Struct)
			hv, _ := g.w.fieldHeap(namedKey(nt), st, x.Field)
			set[hv] = true
		}
	case *ssa.IndexAddr:
		if pt, ok := x.X.Type().Underlying().(*types.Pointer); ok {
			if inner, ok := x.X.(*ssa.FieldAddr); ok {
				g.addrMods(inner, set)
				return
			}
			set[g.w.cellHeap(g.w.sortOf(pt.Elem()))] = true
		}
	case *ssa.Global:
		pt := x.Type().(*types.Pointer)
		hv := "GV_" + sanitize(shortPkg(x.Pkg.Pkg)+"_"+x.Name())
		g.w.heapVars[hv] = g.w.sortOf(pt.Elem())
		set[hv] = true
	default:
		if pt, ok := addr.Type().Underlying().(*types.Pointer); ok {
			elem := pt.Elem()
			if nt, ok := types.Unalias(elem).(*types.Named); ok {
				if st, ok := nt.Underlying().(*types.Struct); ok {
					for i := 0; i < st.NumFields(); i++ {
						hv, _ := g.w.fieldHeap(namedKey(nt), st, i)
						set[hv] = true
					}
					return
				}
			}
			set[g.w.cellHeap(g.w.sortOf(elem))] = true
		}
	}
}

func (g *Gen) callMods(a *Act, c *ssa.CallCommon, set map[string]bool, depth int) {
	var spec *FuncSpec
	if c.IsInvoke() {
		spec = g.w.ifaceSpecs[ifaceMethodKey(c.Value.Type(), c.Method)]
	} else if callee := c.StaticCallee(); callee != nil {
		key := funcKey(callee)
		spec = g.w.funcSpecs[key]
		if spec == nil && depth < maxInlineDepth && callee.Blocks != nil && callee.Pkg != nil && strings.HasPrefix(callee.Pkg.Pkg.Path(), "github.com/FollowTheProcess/spok") {
			sub := g.newAct(callee, depth+1)
			for _, b := range callee.Blocks {
				for _, ins := range b.Instrs {
					g.instrMods(sub, ins, set, depth+1)
				}
			}
			return
		}
	} else if _, isB := c.Value.(*ssa.Builtin); !isB {
		sig := c.Signature()
		for k, s := range g.w.funcSpecs {
			if strings.HasPrefix(k, "functype:") {
				tn := strings.TrimPrefix(k, "functype:")
				i := strings.LastIndex(tn, ".")
				if nt := g.w.prog.lookupNamed(tn[:i], tn[i+1:]); nt != nil {
					if fs, ok := nt.Underlying().(*types.Signature); ok && types.Identical(fs, sig) {
						spec = s
					}
				}
			}
		}
	}
	if spec == nil {
		return
	}
	env := &Env{g: g, vars: map[string]Val{}, st: State{}, pkg: spec.Pkg, aliasKey: spec.Key}
	// bind parameter names to dummies with the right Go types for resolveMod
	if !c.IsInvoke() {
		if callee := c.StaticCallee(); callee != nil {
			for _, p := range callee.Params {
				env.vars[p.Name()] = Val{T: "dummy", S: g.w.sortOf(p.Type()), G: p.Type()}
			}
		} else {
			sig := c.Signature()
			for i := 0; i < sig.Params().Len(); i++ {
				p := sig.Params().At(i)
				n := p.Name()
				if len(spec.Params) == sig.Params().Len() {
					n = spec.Params[i]
				}
				env.vars[n] = Val{T: "dummy", S: g.w.sortOf(p.Type()), G: p.Type()}
			}
		}
	}
	sig := c.Signature()
	if sig.Results().Len() > 0 {
		r0 := sig.Results().At(0)
		env.vars["result"] = Val{T: "dummy", S: g.w.sortOf(r0.Type()), G: r0.Type()}
	}
	for _, m := range spec.Modifies {
		hv, _, err := env.resolveMod(m)
		if err == nil {
			set[hv] = true
		}
	}
}

func sortedKeys(m map[string]bool) []string {
	var ks []string
	for k := range m {
		ks = append(ks, k)
	}
	sort.Strings(ks)
	return ks
}

// bumpWM: a call may allocate; references it returns exist afterwards.
func (a *Act) bumpWM(ctx *blockCtx, res Val, tup []Val) {
	g := a.g
	g.w.heapVars["$wm"] = "Int"
	old := g.stateGet(ctx.st, "$wm")
	n := g.fresh("wm", "Int")
	g.fact("(>= " + n + " " + old + ")")
	ctx.st["$wm"] = n
	vs := tup
	if tup == nil {
		vs = []Val{res}
	}
	for _, v := range vs {
		if v.S == "Ref" && v.T != "" {
			g.fact("(<= " + v.T + " " + n + ")")
		}
	}
}

func (a *Act) bumpWMDefault(ctx *blockCtx) {
	g := a.g
	g.w.heapVars["$wm"] = "Int"
	old := g.stateGet(ctx.st, "$wm")
	n := g.fresh("wm", "Int")
	g.fact("(>= " + n + " " + old + ")")
	ctx.st["$wm"] = n
}

// ordinalOf: the n-th call of `name` in the function, counted in source order.
func (a *Act) ordinalOf(ins ssa.Instruction, name string) int {
	if a.ordinals == nil {
		a.ordinals = map[ssa.Instruction]int{}
		type ent struct {
			ins ssa.Instruction
			pos token.Pos
			blk, idx int
		}
		by := map[string][]ent{}
		for _, b := range a.fn.Blocks {
			for i, in := range b.Instrs {
				var nm string
				switch x := in.(type) {
				case *ssa.Call:
					nm = callName(&x.Call)
				case *ssa.Defer:
					nm = callName(&x.Call)
				case *ssa.Go:
					nm = callName(&x.Call)
				case *ssa.Send:
					nm = "send"
				case *ssa.UnOp:
					if x.Op == token.ARROW {
						nm = "recv"
					}
				}
				if nm != "" {
					by[nm] = append(by[nm], ent{in, in.Pos(), b.Index, i})
				}
			}
		}
		for _, es := range by {
			sort.SliceStable(es, func(i, j int) bool {
				if es[i].pos != es[j].pos {
					return es[i].pos < es[j].pos
				}
				if es[i].blk != es[j].blk {
					return es[i].blk < es[j].blk
				}
				return es[i].idx < es[j].idx
			})
			for k, e := range es {
				a.ordinals[e.ins] = k
			}
		}
	}
	return a.ordinals[ins]
}

// ordinalOfQ: ordinal (by source position) of a static call among the calls to the same function.
func (a *Act) ordinalOfQ(ins ssa.Instruction) int {
	if a.ordinalsQ == nil {
		a.ordinalsQ = map[ssa.Instruction]int{}
		type ent struct {
			ins      ssa.Instruction
			pos      token.Pos
			blk, idx int
		}
		by := map[string][]ent{}
		for _, b := range a.fn.Blocks {
			for i, in := range b.Instrs {
				var cc *ssa.CallCommon
				switch x := in.(type) {
				case *ssa.Call:
					cc = &x.Call
				case *ssa.Defer:
					cc = &x.Call
				case *ssa.Go:
					cc = &x.Call
				}
				if cc == nil || cc.IsInvoke() || cc.StaticCallee() == nil {
					continue
				}
				k := funcKey(cc.StaticCallee())
				by[k] = append(by[k], ent{in, in.Pos(), b.Index, i})
			}
		}
		for _, es := range by {
			sort.SliceStable(es, func(i, j int) bool {
				if es[i].pos != es[j].pos {
					return es[i].pos < es[j].pos
				}
				if es[i].blk != es[j].blk {
					return es[i].blk < es[j].blk
				}
				return es[i].idx < es[j].idx
			})
			for k, e := range es {
				a.ordinalsQ[e.ins] = k
			}
		}
	}
	return a.ordinalsQ[ins]
}

func callName(c *ssa.CallCommon) string {
	if c.IsInvoke() {
		return shortName(ifaceMethodKey(c.Value.Type(), c.Method))
	}
	if callee := c.StaticCallee(); callee != nil {
		return shortName(funcKey(callee))
	}
	if b, ok := c.Value.(*ssa.Builtin); ok {
		return b.Name()
	}
	return "dyn"
}

// rootIsLocalAlloc: the address is (a field / element of) a local variable of the function itself.
func rootIsLocalAlloc(v ssa.Value) bool {
	for {
		switch x := v.(type) {
		case *ssa.FieldAddr:
			v = x.X
		case *ssa.IndexAddr:
			if _, isPtr := x.X.Type().Underlying().(*types.Pointer); !isPtr {
				return false // element of a slice: the backing array may be shared
			}
			v = x.X
		case *ssa.Alloc:
			return true
		default:
			return false
		}
	}
}

// readsSlicesOnly: callees outside /repo, without contract, that are known not to write through
// slice arguments (recorded as an assumption wherever they are used, like every default contract).
func readsSlicesOnly(key string) bool {
	for _, p := range []string{"fmt.", "strings.", "bytes.", "path/filepath.", "errors.", "encoding/json.", "io.MultiWriter", "mvdan.cc/sh/v3/expand.ListEnviron",
		"github.com/bmatcuk/doublestar/v4.GlobWalk", "github.com/FollowTheProcess/msg.", "golang.org/x/exp/maps.Keys", "maps.Keys", "github.com/lithammer/fuzzysearch/fuzzy.", "os.", "strconv."} {
		if strings.HasPrefix(key, p) {
			return true
		}
	}
	return false
}
