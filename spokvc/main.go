package main

import (
	"fmt"
	"os"
	"go/types"

	"golang.org/x/tools/go/packages"
	"golang.org/x/tools/go/ssa"
	"golang.org/x/tools/go/ssa/ssautil"
)

func main() {
	cfg := &packages.Config{Mode: packages.LoadAllSyntax, Dir: "/repo", BuildFlags: []string{"-tags=verif"}}
	pkgs, err := packages.Load(cfg, "./...")
	if err != nil {
		panic(err)
	}
	prog, spkgs := ssautil.AllPackages(pkgs, ssa.InstantiateGenerics)
	prog.Build()
	want := os.Args[1]
	for _, p := range spkgs {
		if p == nil {
			continue
		}
		for _, m := range p.Members {
			if f, ok := m.(*ssa.Function); ok && f.Name() == want {
				f.WriteTo(os.Stdout)
				for _, a := range f.AnonFuncs { a.WriteTo(os.Stdout) }
			}
			if t, ok := m.(*ssa.Type); ok {
				for _, T := range []types.Type{t.Type(), types.NewPointer(t.Type())} {
				ms := prog.MethodSets.MethodSet(T)
				for i := 0; i < ms.Len(); i++ {
					f := prog.MethodValue(ms.At(i))
					if f != nil && f.Name() == want && f.Synthetic == "" { f.WriteTo(os.Stdout) }
				}}
			}
		}
	}
	fmt.Println("ok")
}
