package main

import (
	"flag"
	"fmt"
	"os"
	"path/filepath"
	"runtime"
	"sort"
	"strings"
	"time"
)

var (
	repoDir  = "/repo"
	verifDir = "/verif"
)

func setup() (*World, error) {
	// debugging switch: verify a scratch copy of the repository (the registered checks never set it)
	if d := os.Getenv("SPOKVC_REPO"); d != "" {
		repoDir = d
	}
	w := newWorld()
	p, err := loadProgram(repoDir)
	if err != nil {
		return nil, err
	}
	w.prog = p
	if _, err := w.loadAllSpecs(repoDir, verifDir); err != nil {
		return nil, err
	}
	for _, n := range w.specFunOrd {
		func() {
			defer func() {
				if r := recover(); r != nil {
					err = fmt.Errorf("spec function %s: %v", n, r)
				}
			}()
			w.resolveSpecFun(w.specFuns[n])
		}()
		if err != nil {
			return nil, err
		}
	}
	ts, err := evalTokenStrings()
	if err != nil {
		return nil, err
	}
	tokenStrings = ts
	return w, nil
}

func main() {
	if len(os.Args) < 2 {
		fmt.Fprintln(os.Stderr, "usage: spokvc verify|check|list ...")
		os.Exit(2)
	}
	switch os.Args[1] {
	case "verify":
		cmdVerify(os.Args[2:])
	case "check":
		cmdCheck(os.Args[2:])
	case "list":
		w, err := setup()
		if err != nil {
			fmt.Fprintln(os.Stderr, err)
			os.Exit(2)
		}
		for _, k := range w.prog.repoFn {
			mark := " "
			if _, ok := w.funcSpecs[k]; ok {
				mark = "*"
			}
			fmt.Println(mark, k)
		}
	case "ssa":
		w, err := setup()
		if err != nil {
			fmt.Fprintln(os.Stderr, err)
			os.Exit(2)
		}
		for _, k := range os.Args[2:] {
			if f := w.prog.funcs[k]; f != nil {
				f.WriteTo(os.Stdout)
			} else {
				fmt.Println("no function", k)
			}
		}
	case "scan-slices":
		w, err := setup()
		if err != nil {
			fmt.Fprintln(os.Stderr, err)
			os.Exit(2)
		}
		for _, l := range w.scanSliceArgs() {
			fmt.Println(l)
		}
	default:
		fmt.Fprintln(os.Stderr, "unknown command")
		os.Exit(2)
	}
}

func matchKeys(w *World, pats []string) []string {
	var keys []string
	for k, s := range w.funcSpecs {
		if strings.HasPrefix(k, "functype:") || s.Assumed || s.Trusted != "" {
			continue
		}
		if len(pats) == 0 {
			keys = append(keys, k)
			continue
		}
		for _, p := range pats {
			if ok, _ := filepath.Match(p, k); ok || p == k || (strings.HasSuffix(p, "*") && strings.HasPrefix(k, strings.TrimSuffix(p, "*"))) {
				keys = append(keys, k)
				break
			}
		}
	}
	for n, lm := range w.lemmas {
		if lm.Induct == "" {
			continue
		}
		k := "lemma." + n
		if len(pats) == 0 {
			keys = append(keys, k)
			continue
		}
		for _, p := range pats {
			if ok, _ := filepath.Match(p, k); ok || p == k {
				keys = append(keys, k)
				break
			}
		}
	}
	sort.Strings(keys)
	return keys
}

// verifyKey verifies a function under contract or (key "lemma.<name>") an inductive lemma.
func (w *World) verifyKey(k string) *Gen {
	if strings.HasPrefix(k, "lemma.") {
		if lm, ok := w.lemmas[strings.TrimPrefix(k, "lemma.")]; ok {
			return w.verifyLemma(lm)
		}
	}
	return w.verifyFunc(k)
}

func cmdVerify(args []string) {
	fs := flag.NewFlagSet("verify", flag.ExitOnError)
	verbose := fs.Bool("v", false, "print every obligation")
	keep := fs.String("keep", "", "directory to keep queries in")
	timeout := fs.Int("t", 10, "solver timeout (s)")
	only := fs.String("only", "", "substring filter on obligation names")
	fs.Parse(args)
	start := time.Now()
	w, err := setup()
	if err != nil {
		fmt.Fprintln(os.Stderr, err)
		os.Exit(2)
	}
	fmt.Fprintf(os.Stderr, "loaded in %.1fs\n", time.Since(start).Seconds())
	keys := matchKeys(w, fs.Args())
	var obls []*Obligation
	var fkeys []string
	for _, k := range keys {
		if !strings.HasPrefix(k, "lemma.") {
			fkeys = append(fkeys, k)
		}
	}
	gens := w.verifyAll(fkeys)
	for _, n := range w.aliasNotes {
		fmt.Println("RE-BOUND", n)
	}
	for _, k := range keys {
		g := gens[k]
		if g == nil {
			g = w.verifyKey(k)
		}
		for _, o := range g.obls {
			if *only == "" || strings.Contains(o.Name, *only) {
				obls = append(obls, o)
			}
		}
	}
	dir := *keep
	if dir == "" {
		dir, _ = os.MkdirTemp("", "spokvc-q-")
		defer os.RemoveAll(dir)
	}
	t0 := time.Now()
	dischargeAll(w, obls, dir, *timeout, false, runtime.NumCPU())
	nfail := 0
	for _, o := range obls {
		if o.Status != "discharged" {
			nfail++
			fmt.Printf("FAIL %-70s %s  [%s] %s\n      %s\n", o.Name, o.Kind, o.Pos, o.Detail, o.Src)
		} else if *verbose {
			fmt.Printf("ok   %-70s %s %s %.2fs\n", o.Name, o.Kind, o.Solver, o.Time)
		}
	}
	fmt.Printf("%d functions, %d obligations, %d failed, solve %.1fs\n", len(keys), len(obls), nfail, time.Since(t0).Seconds())
	if nfail > 0 {
		os.Exit(1)
	}
}


func init() {
	if os.Getenv("SPOKVC_DEBUGKEYS") != "" {
		debugKeys = true
	}
}

var debugKeys bool
