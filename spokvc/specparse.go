package main

// Parser for the contract expression language (Gobra-flavoured Go expressions
// with ==>, forall/exists, old()).

import (
	"fmt"
	"strconv"
	"strings"
	"unicode"
)

type Expr interface{}

type (
	EIdent struct{ Name string }
	EInt   struct{ V int64 }
	EStr   struct{ V string }
	EBool  struct{ V bool }
	EUn    struct {
		Op string
		X  Expr
	}
	EBin struct {
		Op   string
		L, R Expr
	}
	ECall struct {
		Fn   string
		Args []Expr
	}
	ESel struct {
		X    Expr
		Name string
	}
	EIndex struct{ X, I Expr }
	ESlice struct{ X, Lo, Hi Expr }
	EOld   struct{ X Expr }
	EQuant struct {
		Forall bool
		Vars   []Binder
		Body   Expr
		Trig   [][]Expr
	}
	EIte struct{ C, A, B Expr }
)

type Binder struct {
	Name string
	Type string // spec type name: int, string, bool, ... ; "" = int
}

type tok struct {
	k string // "id","int","str","op","eof"
	s string
	n int64
}

type sparser struct {
	toks []tok
	p    int
	src  string
}

func lexSpec(s string) ([]tok, error) {
	var out []tok
	i := 0
	for i < len(s) {
		c := s[i]
		switch {
		case c == ' ' || c == '\t' || c == '\n' || c == '\r':
			i++
		case unicode.IsLetter(rune(c)) || c == '_' || c == '$':
			j := i
			for j < len(s) && (unicode.IsLetter(rune(s[j])) || unicode.IsDigit(rune(s[j])) || s[j] == '_' || s[j] == '$') {
				j++
			}
			out = append(out, tok{k: "id", s: s[i:j]})
			i = j
		case c >= '0' && c <= '9':
			j := i
			for j < len(s) && (s[j] >= '0' && s[j] <= '9' || s[j] == 'x' || (s[j] >= 'a' && s[j] <= 'f') || (s[j] >= 'A' && s[j] <= 'F')) {
				j++
			}
			n, err := strconv.ParseInt(s[i:j], 0, 64)
			if err != nil {
				return nil, fmt.Errorf("bad int %q", s[i:j])
			}
			out = append(out, tok{k: "int", n: n})
			i = j
		case c == '"':
			j := i + 1
			for j < len(s) && s[j] != '"' {
				if s[j] == '\\' {
					j++
				}
				j++
			}
			if j >= len(s) {
				return nil, fmt.Errorf("unterminated string in %q", s)
			}
			v, err := strconv.Unquote(s[i : j+1])
			if err != nil {
				return nil, fmt.Errorf("bad string %q", s[i:j+1])
			}
			out = append(out, tok{k: "str", s: v})
			i = j + 1
		case c == '\'':
			j := i + 1
			for j < len(s) && s[j] != '\'' {
				if s[j] == '\\' {
					j++
				}
				j++
			}
			if j >= len(s) {
				return nil, fmt.Errorf("unterminated char in %q", s)
			}
			r, _, _, err := strconv.UnquoteChar(s[i+1:j], '\'')
			if err != nil {
				return nil, fmt.Errorf("bad char %q", s[i:j+1])
			}
			out = append(out, tok{k: "int", n: int64(r)})
			i = j + 1
		default:
			ops := []string{"<==>", "==>", "::", "==", "!=", "<=", ">=", "&&", "||", "<", ">", "+", "-", "*", "/", "%", "!", "(", ")", "[", "]", ",", ".", ":", "?", "{", "}"}
			found := false
			for _, op := range ops {
				if strings.HasPrefix(s[i:], op) {
					out = append(out, tok{k: "op", s: op})
					i += len(op)
					found = true
					break
				}
			}
			if !found {
				return nil, fmt.Errorf("unexpected char %q in %q", c, s)
			}
		}
	}
	out = append(out, tok{k: "eof"})
	return out, nil
}

func ParseSpecExpr(s string) (e Expr, err error) {
	toks, err := lexSpec(s)
	if err != nil {
		return nil, err
	}
	p := &sparser{toks: toks, src: s}
	defer func() {
		if r := recover(); r != nil {
			if pe, ok := r.(parseErr); ok {
				err = fmt.Errorf("%s in %q", string(pe), s)
				return
			}
			panic(r)
		}
	}()
	e = p.expr()
	if p.peek().k != "eof" {
		p.fail("trailing tokens at %q", p.peek().s)
	}
	return e, nil
}

// ParseSpecExprList parses "e1, e2, e3".
func ParseSpecExprList(s string) (es []Expr, err error) {
	toks, err := lexSpec(s)
	if err != nil {
		return nil, err
	}
	p := &sparser{toks: toks, src: s}
	defer func() {
		if r := recover(); r != nil {
			if pe, ok := r.(parseErr); ok {
				err = fmt.Errorf("%s in %q", string(pe), s)
				return
			}
			panic(r)
		}
	}()
	for {
		es = append(es, p.expr())
		if p.isOp(",") {
			p.p++
			continue
		}
		break
	}
	if p.peek().k != "eof" {
		p.fail("trailing tokens at %q", p.peek().s)
	}
	return es, nil
}

type parseErr string

func (p *sparser) fail(f string, a ...interface{}) { panic(parseErr(fmt.Sprintf(f, a...))) }
func (p *sparser) peek() tok                        { return p.toks[p.p] }
func (p *sparser) isOp(s string) bool               { t := p.toks[p.p]; return t.k == "op" && t.s == s }
func (p *sparser) isId(s string) bool               { t := p.toks[p.p]; return t.k == "id" && t.s == s }
func (p *sparser) expectOp(s string) {
	if !p.isOp(s) {
		p.fail("expected %q got %q", s, p.peek().s)
	}
	p.p++
}

func (p *sparser) expr() Expr {
	if p.isId("forall") || p.isId("exists") {
		fa := p.peek().s == "forall"
		p.p++
		var bs []Binder
		for {
			t := p.peek()
			if t.k != "id" {
				p.fail("binder expected")
			}
			p.p++
			b := Binder{Name: t.s}
			if p.peek().k == "id" {
				b.Type = p.typeName()
			} else if p.isOp("[") || p.isOp("*") {
				b.Type = p.typeName()
			}
			bs = append(bs, b)
			if p.isOp(",") {
				p.p++
				continue
			}
			break
		}
		// types may be given once for a group: "i, j int"
		for i := len(bs) - 2; i >= 0; i-- {
			if bs[i].Type == "" {
				bs[i].Type = bs[i+1].Type
			}
		}
		p.expectOp("::")
		q := EQuant{Forall: fa, Vars: bs}
		for p.isOp("{") {
			p.p++
			var tr []Expr
			for {
				tr = append(tr, p.expr())
				if p.isOp(",") {
					p.p++
					continue
				}
				break
			}
			p.expectOp("}")
			q.Trig = append(q.Trig, tr)
		}
		q.Body = p.expr()
		return q
	}
	return p.impl()
}

func (p *sparser) typeName() string {
	s := ""
	for p.isOp("[") || p.isOp("]") || p.isOp("*") {
		s += p.peek().s
		p.p++
	}
	t := p.peek()
	if t.k != "id" {
		p.fail("type name expected")
	}
	p.p++
	s += t.s
	if t.s == "map" || t.s == "mapv" {
		p.expectOp("[")
		k := p.typeName()
		p.expectOp("]")
		v := p.typeName()
		return t.s + "[" + k + "]" + v
	}
	if t.s == "set" {
		p.expectOp("[")
		k := p.typeName()
		p.expectOp("]")
		return "set[" + k + "]"
	}
	if p.isOp(".") {
		p.p++
		t2 := p.peek()
		p.p++
		s += "." + t2.s
	}
	return s
}

func (p *sparser) impl() Expr {
	l := p.ternary()
	if p.isOp("==>") {
		p.p++
		var r Expr
		if p.isId("forall") || p.isId("exists") {
			r = p.expr()
		} else {
			r = p.impl()
		}
		return EBin{"==>", l, r}
	}
	if p.isOp("<==>") {
		p.p++
		r := p.ternary()
		return EBin{"<==>", l, r}
	}
	return l
}

func (p *sparser) ternary() Expr {
	c := p.or()
	if p.isOp("?") {
		p.p++
		a := p.ternary()
		p.expectOp(":")
		b := p.ternary()
		return EIte{c, a, b}
	}
	return c
}

func (p *sparser) or() Expr {
	l := p.and()
	for p.isOp("||") {
		p.p++
		var r Expr
		if p.isId("forall") || p.isId("exists") {
			r = p.expr()
		} else {
			r = p.and()
		}
		l = EBin{"||", l, r}
	}
	return l
}

func (p *sparser) and() Expr {
	l := p.cmp()
	for p.isOp("&&") {
		p.p++
		var r Expr
		if p.isId("forall") || p.isId("exists") {
			r = p.expr()
		} else {
			r = p.cmp()
		}
		l = EBin{"&&", l, r}
	}
	return l
}

func (p *sparser) cmp() Expr {
	l := p.add()
	var res Expr
	for {
		t := p.peek()
		if t.k == "op" && (t.s == "==" || t.s == "!=" || t.s == "<" || t.s == "<=" || t.s == ">" || t.s == ">=") {
			p.p++
			r := p.add()
			c := EBin{t.s, l, r}
			if res == nil {
				res = c
			} else {
				res = EBin{"&&", res, c}
			}
			l = r
			continue
		}
		break
	}
	if res == nil {
		return l
	}
	return res
}

func (p *sparser) add() Expr {
	l := p.mul()
	for p.isOp("+") || p.isOp("-") {
		op := p.peek().s
		p.p++
		r := p.mul()
		l = EBin{op, l, r}
	}
	return l
}

func (p *sparser) mul() Expr {
	l := p.unary()
	for p.isOp("*") || p.isOp("/") || p.isOp("%") {
		op := p.peek().s
		p.p++
		r := p.unary()
		l = EBin{op, l, r}
	}
	return l
}

func (p *sparser) unary() Expr {
	if p.isOp("!") {
		p.p++
		return EUn{"!", p.unary()}
	}
	if p.isOp("-") {
		p.p++
		return EUn{"-", p.unary()}
	}
	return p.postfix()
}

func (p *sparser) postfix() Expr {
	e := p.primary()
	for {
		switch {
		case p.isOp("."):
			p.p++
			t := p.peek()
			if t.k != "id" {
				p.fail("field name expected")
			}
			p.p++
			e = ESel{e, t.s}
		case p.isOp("["):
			p.p++
			var lo, hi Expr
			if p.isOp(":") {
				p.p++
				if !p.isOp("]") {
					hi = p.expr()
				}
				p.expectOp("]")
				e = ESlice{e, nil, hi}
				continue
			}
			lo = p.expr()
			if p.isOp(":") {
				p.p++
				if !p.isOp("]") {
					hi = p.expr()
				}
				p.expectOp("]")
				e = ESlice{e, lo, hi}
				continue
			}
			p.expectOp("]")
			e = EIndex{e, lo}
		case p.isOp("("):
			// call: only on identifiers / pkg.ident
			name := ""
			switch x := e.(type) {
			case EIdent:
				name = x.Name
			case ESel:
				if id, ok := x.X.(EIdent); ok {
					name = id.Name + "." + x.Name
				}
			}
			if name == "" {
				p.fail("call on non-identifier")
			}
			p.p++
			var args []Expr
			if !p.isOp(")") {
				for {
					args = append(args, p.expr())
					if p.isOp(",") {
						p.p++
						continue
					}
					break
				}
			}
			p.expectOp(")")
			if name == "old" {
				if len(args) != 1 {
					p.fail("old takes one argument")
				}
				e = EOld{args[0]}
			} else {
				e = ECall{name, args}
			}
		default:
			return e
		}
	}
}

func (p *sparser) primary() Expr {
	t := p.peek()
	switch t.k {
	case "int":
		p.p++
		return EInt{t.n}
	case "str":
		p.p++
		return EStr{t.s}
	case "id":
		p.p++
		switch t.s {
		case "true":
			return EBool{true}
		case "false":
			return EBool{false}
		}
		return EIdent{t.s}
	case "op":
		if t.s == "(" {
			p.p++
			e := p.expr()
			p.expectOp(")")
			return e
		}
	}
	p.fail("unexpected token %q", t.s)
	return nil
}
