package main

// VC generation from go/ssa: passive form with block reachability literals,
// loop cutting at headers, modular calls.

import (
	"fmt"
	"go/token"
	"go/types"
	"sort"
	"strings"

	"golang.org/x/tools/go/ssa"
)

type Obligation struct {
	Name   string
	Kind   string
	Func   string
	Props  []string
	NFacts int
	NDecls int
	Reach  string
	Goal   string
	Src    string
	Pos    string
	gen    *Gen
	// results
	Status string // "discharged", "failed", "unknown", "timeout"
	Solver string
	Time   float64
	Model  string
	Detail string
	Smoke  bool // must NOT be provable: reachability / consistency check
}

type Gen struct {
	w             *World
	decls         []string
	declared      map[string]bool
	facts         []string
	obls          []*Obligation
	nfresh        int
	top           *ssa.Function
	topKey        string
	spec          *FuncSpec
	refs          []string
	usedDefault   map[string]bool
	usedAssumed   map[string]bool
	usedLemmas    map[string]bool
	modsSkipAlloc bool
	usedInlined   map[string]bool
	problems      []string
	nameCount     map[string]int
	axiomsDone    bool
	inlineStack   []string
	smoke         bool
	knownLens     map[string]int
	boxed         map[string]Val
}

func newGen(w *World, fn *ssa.Function, spec *FuncSpec) *Gen {
	return &Gen{w: w, top: fn, spec: spec, declared: map[string]bool{}, usedDefault: map[string]bool{}, usedAssumed: map[string]bool{}, usedLemmas: map[string]bool{}, usedInlined: map[string]bool{}, nameCount: map[string]int{}, knownLens: map[string]int{}}
}

func (g *Gen) freshName(p string) string {
	g.nfresh++
	return fmt.Sprintf("%s!%d", sanitize(p), g.nfresh)
}

func (g *Gen) fresh(p string, s Sort) string {
	n := g.freshName(p)
	g.decls = append(g.decls, "(declare-const "+n+" "+s+")")
	return n
}

func (g *Gen) extraDecl(name, decl string) {
	if g.declared[name] {
		return
	}
	g.declared[name] = true
	g.decls = append(g.decls, decl)
}

func (g *Gen) fact(f string) {
	if f == "true" {
		return
	}
	g.facts = append(g.facts, f)
}

func (g *Gen) problem(f string, a ...interface{}) {
	g.problems = append(g.problems, fmt.Sprintf(f, a...))
}

func (g *Gen) stateGet(st State, hv string) string {
	if t, ok := st[hv]; ok {
		return t
	}
	s, ok := g.w.heapVars[hv]
	if !ok {
		panic("unknown heap var " + hv)
	}
	n := hv + "!0"
	g.extraDecl(n, "(declare-const "+n+" "+s+")")
	return n
}

func (g *Gen) oblige(kind, name, reach, goal, src, pos string, props []string) {
	if goal == "true" {
		// trivially true goals are still counted (cheap) unless purely syntactic
	}
	g.nameCount[name]++
	if c := g.nameCount[name]; c > 1 {
		name = fmt.Sprintf("%s~%d", name, c)
	}
	g.obls = append(g.obls, &Obligation{Name: name, Kind: kind, Func: g.topKey, Props: props, NFacts: len(g.facts), NDecls: len(g.decls), Reach: reach, Goal: goal, Src: src, Pos: pos, gen: g})
}

func (g *Gen) pos(p token.Pos) string {
	if !p.IsValid() {
		return ""
	}
	ps := g.w.prog.prog.Fset.Position(p)
	return fmt.Sprintf("%s:%d", strings.TrimPrefix(ps.Filename, "/repo/"), ps.Line)
}

// ---------------------------------------------------------------------------
// Activation of one function body

type edge struct {
	cond string
	st   State
}

type loopInfo struct {
	head    *ssa.BasicBlock
	body    map[*ssa.BasicBlock]bool
	ordinal int
	spec    *LoopSpec
	// recorded at header
	decAtHead []string
	headState State
	headReach string
	framed    []string
}

type exitPt struct {
	reach   string
	st      State
	results []Val
	pos     token.Pos
}

type Act struct {
	g        *Gen
	fn       *ssa.Function
	key      string
	vals     map[ssa.Value]Val
	tuples   map[ssa.Value][]Val
	params   map[string]Val
	depth    int
	edges    map[[2]int]edge
	exits    []exitPt
	entrySt  State
	loops    map[*ssa.BasicBlock]*loopInfo
	spec     *FuncSpec // non-nil only for the top-level verified function
	defers   []*ssa.Defer
	deferSt  []deferred
	callSeen map[string]int
	names    map[string][]nameDef
	closures map[string]*closureInfo
	pkg      string
	iters    map[ssa.Value]*mapIter
	blkReach map[*ssa.BasicBlock]string
	recvVars map[string]Val
	pending  []pendingAnchor
	ordinalsQ map[ssa.Instruction]int
	ordinals map[ssa.Instruction]int
	modWhole map[string]bool
	modObjs  map[string][]string
	rebinds  []rebind
	curBlk   *ssa.BasicBlock
	curIdx   int
}

// rebind: from a program point on, an SSA value denotes a new mathematical value (in-place update
// of a slice's elements through a callee, e.g. sort.Stable)
type rebind struct {
	root ssa.Value
	val  Val
	blk  *ssa.BasicBlock
	idx  int
}

type pendingAnchor struct {
	callee string
	n      int
}

type deferred struct {
	call *ssa.CallCommon
	args []Val
	fnv  Val
	pos  token.Pos
}

type closureInfo struct {
	fn       *ssa.Function
	bindings []Val
}

type mapIter struct {
	m       Val
	mt      *types.Map
	seen    string // heap var name of the seen-set (ghost, per iterator)
	isStr   bool
	lastKey Val
}

type nameDef struct {
	v     ssa.Value
	blk   *ssa.BasicBlock
	idx   int
	isPhi bool
	addr  bool
}

func (g *Gen) newAct(fn *ssa.Function, depth int) *Act {
	a := &Act{g: g, fn: fn, key: funcKey(fn), vals: map[ssa.Value]Val{}, tuples: map[ssa.Value][]Val{}, params: map[string]Val{}, depth: depth,
		edges: map[[2]int]edge{}, loops: map[*ssa.BasicBlock]*loopInfo{}, callSeen: map[string]int{}, names: map[string][]nameDef{}, closures: map[string]*closureInfo{}, iters: map[ssa.Value]*mapIter{}, blkReach: map[*ssa.BasicBlock]string{}}
	if fn.Pkg != nil {
		a.pkg = shortPkg(fn.Pkg.Pkg)
	} else if fn.Parent() != nil && fn.Parent().Pkg != nil {
		a.pkg = shortPkg(fn.Parent().Pkg.Pkg)
	}
	a.collectNames()
	return a
}

// collectNames records which SSA values carry which source-level variable names.
func (a *Act) collectNames() {
	for _, b := range a.fn.Blocks {
		for i, ins := range b.Instrs {
			switch x := ins.(type) {
			case *ssa.Phi:
				if x.Comment != "" {
					a.names[x.Comment] = append(a.names[x.Comment], nameDef{v: x, blk: b, idx: i, isPhi: true})
				}
			case *ssa.Alloc:
				if x.Comment != "" && x.Comment != "complit" && x.Comment != "varargs" {
					a.names[x.Comment] = append(a.names[x.Comment], nameDef{v: x, blk: b, idx: i, addr: true})
				}
			case *ssa.DebugRef:
				if obj := x.Object(); obj != nil {
					if _, ok := obj.(*types.Var); ok {
						if _, isParam := x.X.(*ssa.Parameter); isParam {
							continue
						}
						a.names[obj.Name()] = append(a.names[obj.Name()], nameDef{v: x.X, blk: b, idx: i, addr: x.IsAddr})
					}
				}
			}
		}
	}
}

// lookupLocal resolves a source variable name at (the start of) block `at`.
func (a *Act) lookupLocal(name string, at *ssa.BasicBlock, atIdx int, phiOv map[ssa.Value]Val) (Val, bool) {
	defs := a.names[name]
	if len(defs) == 0 {
		return Val{}, false
	}
	if at == nil {
		return Val{}, false
	}
	// variables that live in memory (an Alloc carries their name): always read through
	// the allocation, value DebugRefs of such variables are stale after a store
	for b := at; b != nil; b = b.Idom() {
		var bestA *nameDef
		for i := range defs {
			d := &defs[i]
			if d.blk != b {
				continue
			}
			_, isAlloc := d.v.(*ssa.Alloc)
			_, isFV := d.v.(*ssa.FreeVar)
			if !isAlloc && !isFV {
				continue
			}
			if b == at && d.idx >= atIdx {
				continue
			}
			if bestA == nil || d.idx > bestA.idx {
				bestA = d
			}
		}
		if bestA != nil {
			if v, ok := a.vals[bestA.v]; ok {
				return Val{T: v.T, S: "$addr", G: v.G, L: v.L}, true
			}
		}
	}
	// nearest dominating definition: walk idom chain from `at`
	var best *nameDef
	for b := at; b != nil && best == nil; b = b.Idom() {
		// choose the last def in block b (for `at` itself only phis count: start of block)
		for i := len(defs) - 1; i >= 0; i-- {
			d := &defs[i]
			if d.blk != b {
				continue
			}
			if b == at && !d.isPhi && d.idx >= atIdx {
				continue
			}
			if best == nil || d.idx > best.idx {
				best = d
			}
		}
	}
	if best == nil {
		return Val{}, false
	}
	if phiOv != nil {
		if v, ok := phiOv[best.v]; ok {
			return v, true
		}
	}
	// a value re-bound by an in-place library call (sort.Stable / sort.Strings) is seen re-bound
	// from the call on
	for i := len(a.rebinds) - 1; i >= 0; i-- {
		rb := a.rebinds[i]
		if rb.root == best.v && (rb.blk == at && rb.idx < atIdx || rb.blk != at && rb.blk.Dominates(at)) {
			return rb.val, true
		}
	}
	v, ok := a.vals[best.v]
	if !ok {
		if c, isC := best.v.(*ssa.Const); isC {
			return a.g.constVal(c.Value, c.Type()), true
		}
		return Val{}, false
	}
	if best.addr {
		// the value is the address of the variable: load it in the *current* env state is
		// not possible here (no state); handled by caller through loadAddr marker
		return Val{T: v.T, S: "$addr", G: v.G, L: v.L}, true
	}
	return v, true
}

// ---------------------------------------------------------------------------

func (a *Act) val(v ssa.Value) Val {
	switch x := v.(type) {
	case *ssa.Const:
		if x.Value == nil {
			s := a.g.w.sortOf(x.Type())
			return Val{T: a.g.w.zeroSort(s), S: s, G: x.Type()}
		}
		return a.g.constVal(x.Value, x.Type())
	case *ssa.Function:
		return Val{T: smtInt(int64(a.g.w.funcID(funcKey(x)))), S: "Int", G: x.Type()}
	case *ssa.Global:
		// address of a package-level variable
		pt := x.Type().(*types.Pointer)
		s := a.g.w.sortOf(pt.Elem())
		hv := "GV_" + sanitize(shortPkg(x.Pkg.Pkg)+"_"+x.Name())
		a.g.w.heapVars[hv] = s
		return Val{T: "ref_nil", S: "Ref", G: x.Type(), L: &LVal{Kind: "global", Heap: hv, ElemS: s, ElemG: pt.Elem()}}
	case *ssa.Builtin:
		return Val{T: "0", S: "Int", G: x.Type()}
	}
	for i := len(a.rebinds) - 1; i >= 0; i-- {
		rb := a.rebinds[i]
		if rb.root == v && a.curBlk != nil && (rb.blk == a.curBlk && rb.idx < a.curIdx || rb.blk != a.curBlk && rb.blk.Dominates(a.curBlk)) {
			return rb.val
		}
	}
	if r, ok := a.vals[v]; ok {
		return r
	}
	a.g.problem("%s: use of undefined SSA value %s (%T)", a.key, v.Name(), v)
	s := a.g.w.sortOf(v.Type())
	return Val{T: a.g.fresh("undef", s), S: s, G: v.Type()}
}

func (a *Act) set(v ssa.Value, x Val) {
	if x.G == nil {
		x.G = v.Type()
	}
	a.vals[v] = x
}

type blockCtx struct {
	reach string
	st    State
}

func (a *Act) findLoops() {
	// back edges p->h where h dominates p
	ord := 0
	for _, h := range a.fn.Blocks {
		var backs []*ssa.BasicBlock
		for _, p := range h.Preds {
			if h.Dominates(p) {
				backs = append(backs, p)
			}
		}
		if len(backs) == 0 {
			continue
		}
		li := &loopInfo{head: h, body: map[*ssa.BasicBlock]bool{h: true}, ordinal: ord}
		ord++
		var stack []*ssa.BasicBlock
		for _, p := range backs {
			if !li.body[p] {
				li.body[p] = true
				stack = append(stack, p)
			}
		}
		for len(stack) > 0 {
			b := stack[len(stack)-1]
			stack = stack[:len(stack)-1]
			for _, p := range b.Preds {
				if !li.body[p] {
					li.body[p] = true
					stack = append(stack, p)
				}
			}
		}
		a.loops[h] = li
	}
}

func (a *Act) order() []*ssa.BasicBlock {
	// reverse postorder ignoring back edges
	seen := map[*ssa.BasicBlock]bool{}
	var post []*ssa.BasicBlock
	var dfs func(b *ssa.BasicBlock)
	dfs = func(b *ssa.BasicBlock) {
		seen[b] = true
		for _, s := range b.Succs {
			if s.Dominates(b) { // back edge
				continue
			}
			if !seen[s] {
				dfs(s)
			}
		}
		post = append(post, b)
	}
	dfs(a.fn.Blocks[0])
	for i, j := 0, len(post)-1; i < j; i, j = i+1, j-1 {
		post[i], post[j] = post[j], post[i]
	}
	return post
}

// mergeStates builds the state at a join point.
func (g *Gen) mergeStates(es []edge, tag string) State {
	if len(es) == 1 {
		return es[0].st.clone()
	}
	keys := map[string]bool{}
	for _, e := range es {
		for k := range e.st {
			keys[k] = true
		}
	}
	var ks []string
	for k := range keys {
		ks = append(ks, k)
	}
	sort.Strings(ks)
	out := State{}
	for _, k := range ks {
		first := g.stateGet(es[0].st, k)
		same := true
		for _, e := range es[1:] {
			if g.stateGet(e.st, k) != first {
				same = false
				break
			}
		}
		if same {
			out[k] = first
			continue
		}
		n := g.fresh(k+"_"+tag, g.w.heapVars[k])
		t := g.stateGet(es[len(es)-1].st, k)
		for i := len(es) - 2; i >= 0; i-- {
			t = "(ite " + es[i].cond + " " + g.stateGet(es[i].st, k) + " " + t + ")"
		}
		g.fact("(= " + n + " " + t + ")")
		out[k] = n
	}
	return out
}

// run executes the body. Returns merged exit (reach, state, results).
func (a *Act) run(reach string, st State, args []Val) {
	g := a.g
	if a.entrySt == nil {
		a.entrySt = st.clone()
	}
	for i, p := range a.fn.Params {
		v := args[i]
		if v.G == nil {
			v.G = p.Type()
		}
		a.vals[p] = v
		a.params[p.Name()] = v
	}
	for i, fv := range a.fn.FreeVars {
		_ = i
		if _, ok := a.vals[fv]; !ok {
			s := g.w.sortOf(fv.Type())
			a.vals[fv] = Val{T: g.fresh("fv_"+fv.Name(), s), S: s, G: fv.Type()}
			if s == "Ref" {
				g.fact("(> " + a.vals[fv].T + " 0)")
				g.refs = append(g.refs, a.vals[fv].T)
			}
		}
		// captured variables are visible to contracts under their source name (read through the cell)
		a.names[fv.Name()] = append(a.names[fv.Name()], nameDef{v: fv, blk: a.fn.Blocks[0], idx: -1, addr: true, isPhi: true})
		pv := a.vals[fv]
		pv.S = "$addr"
		a.params[fv.Name()] = pv
	}
	if len(a.fn.Blocks) == 0 {
		g.problem("%s: no body", a.key)
		return
	}
	a.findLoops()
	if a.spec != nil {
		for n := range a.spec.Loops {
			found := false
			for _, li := range a.loops {
				if li.ordinal == n {
					found = true
				}
			}
			if !found {
				g.oblige("binding", a.key+"/binding/loop"+fmt.Sprint(n), "true", "false", fmt.Sprintf("contract names loop %d which does not exist", n), a.spec.File, nil)
			}
		}
	}
	for _, b := range a.order() {
		var ctx blockCtx
		if b.Index == 0 {
			ctx = blockCtx{reach: reach, st: st.clone()}
		} else if li, ok := a.loops[b]; ok {
			ctx = a.enterLoop(li)
		} else {
			var es []edge
			for _, p := range b.Preds {
				if e, ok := a.edges[[2]int{p.Index, b.Index}]; ok {
					es = append(es, e)
				}
			}
			if len(es) == 0 {
				// unreachable block (all preds unprocessed/dead)
				ctx = blockCtx{reach: "false", st: st.clone()}
			} else {
				var conds []string
				for _, e := range es {
					conds = append(conds, e.cond)
				}
				r := g.fresh(fmt.Sprintf("r_%s_b%d", shortName(a.key), b.Index), "Bool")
				g.fact("(= " + r + " " + or(conds...) + ")")
				ctx = blockCtx{reach: r, st: g.mergeStates(es, fmt.Sprintf("b%d", b.Index))}
			}
		}
		a.blkReach[b] = ctx.reach
		a.execBlock(b, &ctx)
	}
}

func shortName(k string) string {
	if i := strings.LastIndex(k, "."); i >= 0 {
		return k[i+1:]
	}
	return k
}

func (a *Act) edgeCond(p *ssa.BasicBlock, b *ssa.BasicBlock) string {
	if e, ok := a.edges[[2]int{p.Index, b.Index}]; ok {
		return e.cond
	}
	return "false"
}

// enterLoop handles a loop header: assert invariant on entry edges, havoc, assume invariant.
func (a *Act) enterLoop(li *loopInfo) blockCtx {
	g := a.g
	h := li.head
	var ls *LoopSpec
	if a.spec != nil {
		ls = a.spec.Loops[li.ordinal]
	}
	li.spec = ls
	if ls == nil {
		if a.spec != nil {
			g.oblige("binding", fmt.Sprintf("%s/loop%d/no-invariant", a.key, li.ordinal), "true", "false", "loop without invariant", g.pos(h.Instrs[0].Pos()), nil)
		} else {
			g.problem("%s: loop in inlined/uncontracted function", a.key)
		}
		ls = &LoopSpec{}
	}
	// entry edges
	var entries []edge
	var entryPreds []*ssa.BasicBlock
	for _, p := range h.Preds {
		if h.Dominates(p) {
			continue
		}
		if e, ok := a.edges[[2]int{p.Index, h.Index}]; ok {
			entries = append(entries, e)
			entryPreds = append(entryPreds, p)
		}
	}
	// assert invariant on each entry edge
	for i, e := range entries {
		ov := a.phiOverride(h, entryPreds[i])
		env := a.env(e.st, ov, h)
		for k, c := range ls.Inv {
			t := a.trClause(env, c, "invariant")
			g.oblige("inv-entry", fmt.Sprintf("%s/loop%d/inv%d%s/entry", a.key, li.ordinal, k, labelSuffix(c)), e.cond, t, c.Src, fmt.Sprintf("%s:%d", c.File, c.Line), a.clauseProps(c))
		}
	}
	// header state
	var conds []string
	for _, e := range entries {
		conds = append(conds, e.cond)
	}
	r := g.fresh(fmt.Sprintf("r_%s_loop%d", shortName(a.key), li.ordinal), "Bool")
	g.fact(implies(r, or(conds...)))
	var st State
	if len(entries) == 0 {
		st = a.entrySt.clone()
	} else {
		st = g.mergeStates(entries, fmt.Sprintf("l%d", li.ordinal))
	}
	// havoc everything the body may modify
	mods := a.loopMods(li)
	wm0 := g.stateGet(a.entrySt, "$wm")
	for _, hv := range mods {
		before := g.stateGet(st, hv)
		st[hv] = g.fresh(hv+fmt.Sprintf("_l%d", li.ordinal), g.w.heapVars[hv])
		if hv == "$wm" {
			g.fact("(>= " + st[hv] + " " + before + ")")
			continue
		}
		// implicit frame invariant: objects that existed at function entry and are not
		// named by the modifies clause keep their entry value (checked on every back edge)
		if a.spec != nil && !a.modWhole[hv] && strings.HasPrefix(g.w.heapVars[hv], "(Array Ref ") && !strings.HasPrefix(hv, "Cell_") {
			q := g.freshName("fr")
			conds := []string{"(<= " + q + " " + wm0 + ")"}
			for _, o := range a.modObjs[hv] {
				conds = append(conds, not("(= "+q+" "+o+")"))
			}
			g.fact("(forall ((" + q + " Ref)) (! (=> " + and(conds...) + " (= (select " + st[hv] + " " + q + ") (select " + g.stateGet(a.entrySt, hv) + " " + q + "))) :pattern ((select " + st[hv] + " " + q + "))))")
			li.framed = append(li.framed, hv)
		}
	}
	// phis get fresh values
	for _, ins := range h.Instrs {
		phi, ok := ins.(*ssa.Phi)
		if !ok {
			break
		}
		s := g.w.sortOf(phi.Type())
		nm := phi.Comment
		if nm == "" {
			nm = phi.Name()
		}
		pv := Val{T: g.fresh("phi_"+nm, s), S: s, G: phi.Type()}
		if f := g.typeFact(pv); f != "true" {
			g.fact(f)
		}
		a.set(phi, pv)
	}
	// use hints + assume invariant
	env := a.env(st, nil, h)
	for _, c := range ls.Inv {
		t := a.trClause(env, c, "invariant")
		g.fact(implies(r, t))
	}
	for _, u := range ls.Uses {
		a.applyUse(env, u, r, fmt.Sprintf("%s/loop%d", a.key, li.ordinal))
	}
	li.headState = st.clone()
	li.headReach = r
	li.decAtHead = nil
	for _, d := range ls.Dec {
		v := a.trExpr(env, d, "decreases")
		n := g.fresh(fmt.Sprintf("dec_l%d", li.ordinal), "Int")
		g.fact("(= " + n + " " + v.T + ")")
		li.decAtHead = append(li.decAtHead, n)
	}
	return blockCtx{reach: r, st: st}
}

func labelSuffix(c Clause) string {
	if c.Label != "" {
		return ":" + c.Label
	}
	return ""
}

func (a *Act) clauseProps(c Clause) []string {
	if len(c.Props) > 0 {
		return c.Props
	}
	if a.spec != nil {
		return a.spec.Props
	}
	return nil
}

// phiOverride maps each header phi to its incoming value along pred p.
func (a *Act) phiOverride(h, p *ssa.BasicBlock) map[ssa.Value]Val {
	ov := map[ssa.Value]Val{}
	idx := -1
	for i, q := range h.Preds {
		if q == p {
			idx = i
		}
	}
	for _, ins := range h.Instrs {
		phi, ok := ins.(*ssa.Phi)
		if !ok {
			break
		}
		ov[phi] = a.val(phi.Edges[idx])
	}
	return ov
}

// backEdge asserts invariant preservation and variant decrease.
func (a *Act) backEdge(li *loopInfo, from *ssa.BasicBlock, cond string, st State) {
	g := a.g
	ls := li.spec
	if ls == nil {
		return
	}
	ov := a.phiOverride(li.head, from)
	env := a.env(st, ov, li.head)
	for k, c := range ls.Inv {
		t := a.trClause(env, c, "invariant")
		g.oblige("inv-pres", fmt.Sprintf("%s/loop%d/inv%d%s/preserved@b%d", a.key, li.ordinal, k, labelSuffix(c), from.Index), cond, t, c.Src, fmt.Sprintf("%s:%d", c.File, c.Line), a.clauseProps(c))
	}
	for _, hv := range li.framed {
		cur := g.stateGet(st, hv)
		r := g.fresh("frame_r", "Ref")
		conds := []string{"(<= " + r + " " + g.stateGet(a.entrySt, "$wm") + ")"}
		for _, o := range a.modObjs[hv] {
			conds = append(conds, not("(= "+r+" "+o+")"))
		}
		g.oblige("frame", fmt.Sprintf("%s/loop%d/frame:%s@b%d", a.key, li.ordinal, hv, from.Index), cond, implies(and(conds...), "(= (select "+cur+" "+r+") (select "+g.stateGet(a.entrySt, hv)+" "+r+"))"), "loop body respects the modifies clause for "+hv, "", a.spec.Props)
	}
	if len(ls.Dec) > 0 {
		// lexicographic decrease, each component bounded below by 0 at the head
		var news []string
		for _, d := range ls.Dec {
			news = append(news, a.trExpr(env, d, "decreases").T)
		}
		var alts []string
		eqs := "true"
		for i := range news {
			alts = append(alts, and(eqs, "(< "+news[i]+" "+li.decAtHead[i]+")", "(>= "+li.decAtHead[i]+" 0)"))
			eqs = and(eqs, "(= "+news[i]+" "+li.decAtHead[i]+")")
		}
		var props []string
		if a.spec != nil {
			props = a.spec.Props
		}
		g.oblige("variant", fmt.Sprintf("%s/loop%d/decreases@b%d", a.key, li.ordinal, from.Index), cond, or(alts...), ls.DecSrc, fmt.Sprintf("%s:%d", ls.File, ls.Line), props)
	} else if a.spec != nil && a.spec.Terminates {
		g.oblige("variant", fmt.Sprintf("%s/loop%d/no-variant", a.key, li.ordinal), "true", "false", "terminates declared but loop has no decreases clause", fmt.Sprintf("%s:%d", ls.File, ls.Line), a.spec.Props)
	}
}

func (a *Act) envAt(st State, at *ssa.BasicBlock, idx int) *Env {
	e := a.env(st, nil, at)
	e.atIdx = idx
	return e
}

func (a *Act) env(st State, ov map[ssa.Value]Val, at *ssa.BasicBlock) *Env {
	vars := map[string]Val{}
	for k, v := range a.params {
		vars[k] = v
	}
	for k, v := range a.recvVars {
		vars[k] = v
	}
	return &Env{g: a.g, act: a, vars: vars, st: st, old: a.entrySt, pkg: a.pkg, phiOv: ov, at: at, aliasKey: a.g.topKey}
}

func (a *Act) trClause(env *Env, c Clause, what string) (out string) {
	defer func() {
		if r := recover(); r != nil {
			if se, ok := r.(specErr); ok {
				a.g.oblige("binding", fmt.Sprintf("%s/binding/%s:%d", a.key, what, c.Line), "true", "false", fmt.Sprintf("%s does not bind: %s  [%s]", what, string(se), c.Src), fmt.Sprintf("%s:%d", c.File, c.Line), nil)
				out = "true"
				return
			}
			panic(r)
		}
	}()
	v := env.tr(c.E)
	v = a.derefAddr(env, v)
	if v.S != "Bool" {
		panic(specErr("clause is not boolean"))
	}
	return v.T
}

func (a *Act) trExpr(env *Env, e Expr, what string) (out Val) {
	defer func() {
		if r := recover(); r != nil {
			if se, ok := r.(specErr); ok {
				a.g.oblige("binding", fmt.Sprintf("%s/binding/%s", a.key, what), "true", "false", fmt.Sprintf("%s does not bind: %s [%s]", what, string(se), exprString(e)), "", nil)
				out = intT("0")
				return
			}
			panic(r)
		}
	}()
	return env.tr(e)
}

func (a *Act) derefAddr(env *Env, v Val) Val { return v }

// loopMods: heap variables possibly modified in the loop body.
func (a *Act) loopMods(li *loopInfo) []string {
	set := map[string]bool{}
	for b := range li.body {
		for _, ins := range b.Instrs {
			a.g.instrMods(a, ins, set, 0)
		}
	}
	if a.spec != nil && len(a.spec.Anchors) > 0 {
		// ghost updates anchored at a call / send / receive inside this loop
		for b := range li.body {
			for _, ins := range b.Instrs {
				nm := ""
				switch x := ins.(type) {
				case *ssa.Call:
					nm = callName(&x.Call)
				case *ssa.Defer:
					nm = callName(&x.Call)
				case *ssa.Go:
					nm = callName(&x.Call)
				case *ssa.Send:
					nm = "send"
				case *ssa.UnOp:
					if x.Op == token.ARROW {
						nm = "recv"
					}
				}
				if nm == "" {
					continue
				}
				n := a.ordinalOf(ins, nm)
				for _, an := range a.spec.Anchors {
					if an.Callee == nm && an.Nth == n {
						for _, gu := range an.Ghost {
							a.g.modTargets(a, gu.Target, set)
						}
					}
				}
			}
		}
	}
	for b := range li.body {
		for _, ins := range b.Instrs {
			switch ins.(type) {
			case *ssa.Alloc, *ssa.MakeMap, *ssa.MakeChan, *ssa.Call, *ssa.Defer:
				a.g.w.heapVars["$wm"] = "Int"
				set["$wm"] = true
			}
		}
	}
	var out []string
	for k := range set {
		out = append(out, k)
	}
	sort.Strings(out)
	return out
}
