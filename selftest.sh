#!/bin/bash
# selftest.sh [name-glob]: must-fail corpus. For every seeded change under /verif/seeded/<PROP>-m<k>/ apply
# patch.diff to /repo's working tree, run the quick checks listed for it (meta.json "checks", default:
# the property in the directory name), record whether a VIOLATION was reported, and undo the change
# straight afterwards. Nothing is ever committed to /repo. Writes /verif/seeded/RESULTS.md.
cd /verif
pat=${1:-*}
[ -z "$(git -C /repo status --porcelain)" ] || { echo "/repo working tree is not clean: refusing"; exit 2; }
res=/verif/seeded/RESULTS.md
tmp=$(mktemp)
for d in seeded/$pat/; do
  n=$(basename $d)
  [ -f $d/patch.diff ] || continue
  props=$(python3 -c "
import json;m=json.load(open('$d/meta.json'));print(' '.join(m.get('checks',['$n'.split('-')[0]])))")
  if ! git -C /repo apply --check $PWD/$d/patch.diff 2>/dev/null; then echo "| $n | - | patch does not apply to the current tree | |" >> $tmp; continue; fi
  git -C /repo apply $PWD/$d/patch.diff
  for p in $props; do
    out=$(SPOKVC_SELFTEST=1 ./check $p quick 2>&1); rc=$?
    v=$(echo "$out" | grep -c '^VIOLATION')
    first=$(echo "$out" | grep -m1 '^VIOLATION' | sed 's/.*replay=[^ ]*\/\([^ \/]*\)\.json.*/\1/')
    nf=$(echo "$out" | grep '^VIOLATION' | grep -vc 'no-failing-input-found')
    if [ $rc -ne 0 ] && [ $v -gt 0 ]; then verdict="DETECTED"; else verdict="MISSED"; fi
    echo "| $n | $p | $verdict ($v violations, $nf with a replayed failing input) | $first |" >> $tmp
    echo "$n $p $verdict $v"
  done
  git -C /repo checkout -- . ; git -C /repo clean -fdq
done
# rows of seeded changes that were not re-run in this invocation are kept
if [ -f $res ]; then
  grep '^| C' $res | while IFS= read -r row; do
    n=$(echo "$row" | cut -d'|' -f2 | tr -d ' ')
    grep -q "^| $n |" $tmp || echo "$row" >> $tmp
  done
fi
{ echo "# Seeded changes vs checks (written by /verif/selftest.sh)"; echo; echo "| seeded change | check | result | first failed obligation |"; echo "|---|---|---|---|"; sort -u $tmp; } > $res
rm -f $tmp
grep -c MISSED $res | sed 's/^/missed: /'
