#!/usr/bin/env python3
# Regenerates the seeded-change table of DESIGN.md (between the SEEDTABLE markers) from
# /verif/seeded/RESULTS.md (written by /verif/selftest.sh) and the meta.json of each seeded change.
import json, re
rows=[l for l in open('/verif/seeded/RESULTS.md') if l.startswith('| C')]
byseed={}
for r in rows:
    cells=[c.strip() for c in r.strip().strip('|').split('|')]
    byseed.setdefault(cells[0],[]).append(cells)
def key(n):
    m=re.match(r'C(\d+)-([a-z])(\d+)',n); return (int(m.group(1)),m.group(2),int(m.group(3)))
out=["| seeded change | what it changes | check(s) | result | first failed obligation |","|---|---|---|---|---|"]
nd=0
for n in sorted(byseed,key=key):
    m=json.load(open('/verif/seeded/%s/meta.json'%n))
    s=re.sub(r'\s+',' ',m.get('summary',''))
    if len(s)>150: s=s[:147]+'...'
    s=s.replace('|','/')
    checks=', '.join(c[1] for c in byseed[n])
    res='; '.join(c[2].split(' (')[0] for c in byseed[n])
    if all('DETECTED' in c[2] for c in byseed[n]): nd+=1
    ob=byseed[n][0][3].replace('___','.').replace('__','.')
    out.append("| %s | %s | %s | %s | `%s` |"%(n,s,checks,res,ob[:90]))
table='\n'.join(out)+'\n'
d=open('/verif/DESIGN.md').read()
b,e='<!-- SEEDTABLE-BEGIN -->','<!-- SEEDTABLE-END -->'
i=d.index(b)+len(b); j=d.index(e)
head="\n%d seeded changes, %d detected by the quick check of their property on the current tree (a few are listed under two checks).\n\n"%(len(byseed),nd)
d=d[:i]+head+table+d[j:]
open('/verif/DESIGN.md','w').write(d)
print(len(byseed),'seeds',nd,'detected')
